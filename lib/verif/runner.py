"""Driver: ./bin/check <ID> --tier quick|thorough | --replay <file>.

Generates the conditions of a property from /repo's current working tree
(importing verif.props.cNN enumerates the live registries), explores each one
symbolically in its own forked process (16 at a time), replays every
counterexample natively before reporting it, and writes the evidence file.
"""

import argparse
import base64
import fnmatch
import importlib
import json
import os
import pickle
import random
import select
import signal
import subprocess
import sys
import time
import traceback

from . import h

VERIF_ROOT = h.VERIF_ROOT
EXIT_OK, EXIT_VIOLATION, EXIT_HARNESS = 0, 1, 2
JOBS = int(os.environ.get('VERIF_JOBS', '16'))
# CPU budgets in the harness files were sized on an idle machine; on a loaded one (several checks at once) the same
# exploration costs up to twice the CPU time, so the budgets are doubled: a budget only bounds inconclusive explorations,
# an exhausted path tree ends the condition at once
BUDGET_SCALE = float(os.environ.get('VERIF_BUDGET_SCALE', '2'))
# VERIF_OUT redirects evidence and replay files (used when a scratch copy of the repository is checked, see bin/run-seeded)
EVIDENCE_DIR = os.environ.get('VERIF_OUT') or os.path.join(VERIF_ROOT, 'evidence')


def load_property(pid):
    importlib.import_module(f'verif.props.{pid.lower()}')
    return [c for c in h.REGISTRY.values() if c.property_id == pid]


# ---------------------------------------------------------------------------
# native execution (replay, profiling)

def run_native(cond, args):
    """Run a condition natively on concrete arguments; returns (verdict, detail)."""
    h._take_path_tags()
    try:
        ret = cond.fn(**args)
    except h.AssumptionFailed:
        return 'assumption-failed', ''
    except Exception as exc:
        return 'exception:' + type(exc).__name__, traceback.format_exc()[-1500:]
    return ret, ''


def profile_native(cond, args):
    """Names of /repo functions entered by one native run on ``args``."""
    seen = set()
    repo = os.environ.get('VERIF_REPO', '/repo') + os.sep

    def prof(frame, event, arg):
        if event == 'call':
            code = frame.f_code
            fname = code.co_filename
            if fname.startswith(repo):
                seen.add(f'{fname[len(repo):]}:{code.co_qualname}')
    sys.setprofile(prof)
    try:
        verdict, _ = run_native(cond, args)
    finally:
        sys.setprofile(None)
    return verdict, sorted(seen)


# ---------------------------------------------------------------------------
# worker

def _worker(cond, budget, wfd, seed):
    # Runs in a forked child.
    try:
        random.seed(seed)
        from . import engine
        res = engine.explore(cond, budget, seed=seed)
        res['functions'] = []
        res['native_ok'] = 0
        # Every realised sample input is re-executed natively (no CrossHair models involved).  A
        # sample that fails natively although its symbolic path passed (behaviour that depends on
        # something the models hide, e.g. hash iteration order) is a counterexample candidate.
        for n, sample in enumerate(res['samples']):
            try:
                if n == 0:
                    verdict, funcs = profile_native(cond, sample)
                    res['functions'] = funcs
                else:
                    verdict, _ = run_native(cond, sample)
            except BaseException as exc:  # noqa
                res['native_mismatch'] = f'native run failed: {exc!r}'
                continue
            if verdict == 'ok':
                res['native_ok'] += 1
            elif verdict != 'assumption-failed':
                res.setdefault('cexs', []).append({'args': sample, 'verdict': str(verdict), 'detail': 'found by the native '
                                                   're-execution of a sample input', 'where': ''})
                if res.get('cex') is None:
                    res['cex'] = res['cexs'][-1]
                res['status'] = 'REFUTED'
    except BaseException as exc:  # noqa
        res = {'id': cond.id, 'status': 'ERROR', 'reason': traceback.format_exc()[-3000:],
               'paths': 0, 'ok_paths': 0}
    try:
        data = pickle.dumps(res, protocol=4)
    except Exception:
        res['samples'] = [repr(s) for s in res.get('samples', [])]
        for cex in res.get('cexs', []):
            cex['unpicklable'] = True
            cex['args'] = repr(cex['args'])
        data = pickle.dumps(res, protocol=4)
    with os.fdopen(wfd, 'wb') as f:
        f.write(data)
    os._exit(0)


def run_conditions(conds, tier, seed, jobs=JOBS, verbose=True):
    """Fork one process per condition, at most ``jobs`` at a time."""
    queue = sorted(conds, key=lambda c: -(c.tiers[tier] or 0))
    running = {}   # rfd -> (pid, cond, t0, hard_deadline, buffer)
    results = {}
    t_start = time.time()
    while queue or running:
        while queue and len(running) < jobs:
            cond = queue.pop(0)
            budget = cond.tiers[tier] * BUDGET_SCALE
            rfd, wfd = os.pipe()
            pid = os.fork()
            if pid == 0:
                os.close(rfd)
                for fd in list(running):
                    try:
                        os.close(fd)
                    except OSError:
                        pass
                _worker(cond, budget, wfd, seed)
                os._exit(0)
            os.close(wfd)
            os.set_blocking(rfd, False)
            now = time.time()
            running[rfd] = [pid, cond, now, now + budget * 3 + 120, bytearray()]
        ready, _, _ = select.select(list(running), [], [], 1.0)
        now = time.time()
        for rfd in ready:
            ent = running[rfd]
            try:
                chunk = os.read(rfd, 1 << 20)
            except BlockingIOError:
                continue
            if chunk:
                ent[4].extend(chunk)
                continue
            # EOF
            os.close(rfd)
            del running[rfd]
            os.waitpid(ent[0], 0)
            try:
                res = pickle.loads(bytes(ent[4]))
            except Exception:
                res = {'id': ent[1].id, 'status': 'ERROR', 'reason': 'worker died without a result',
                       'paths': 0, 'ok_paths': 0}
            res['elapsed_s'] = round(now - ent[2], 2)
            results[ent[1].id] = res
            if verbose:
                print(f'  [{res["status"]:9}] {ent[1].id}  paths={res.get("paths", 0)} '
                      f'ok={res.get("ok_paths", 0)} z3={res.get("z3_s", 0)}s cpu={res.get("cpu_s", 0)}s '
                      f'{res.get("reason", "")[:160]}', flush=True)
        for rfd, ent in list(running.items()):
            if now > ent[3]:
                try:
                    os.kill(ent[0], signal.SIGKILL)
                    os.waitpid(ent[0], 0)
                except OSError:
                    pass
                os.close(rfd)
                del running[rfd]
                results[ent[1].id] = {'id': ent[1].id, 'status': 'UNKNOWN', 'paths': 0, 'ok_paths': 0,
                                      'reason': 'hard wall-clock limit; worker killed',
                                      'elapsed_s': round(now - ent[2], 2)}
                if verbose:
                    print(f'  [KILLED   ] {ent[1].id}', flush=True)
    return results, time.time() - t_start


# ---------------------------------------------------------------------------
# replay

def write_replay(pid, cond_id, cex, tier, n):
    os.makedirs(os.path.join(EVIDENCE_DIR, 'replay'), exist_ok=True)
    path = os.path.join(EVIDENCE_DIR, 'replay', f'{pid}-{n}.json')
    doc = {
        'property': pid, 'condition': cond_id, 'tier': tier,
        'verdict': cex['verdict'], 'detail': cex.get('detail', ''),
        'args_repr': {k: repr(v) for k, v in cex['args'].items()},
        'args_pickle_b64': base64.b64encode(pickle.dumps(cex['args'], protocol=4)).decode(),
    }
    with open(path, 'w') as f:
        json.dump(doc, f, indent=1)
    return path


def _pythonpath():
    # same as bin/check: the tree under test (VERIF_REPO, default: /repo through the overlay's .pth) comes first
    repo = os.environ.get('VERIF_REPO')
    return (repo + os.pathsep if repo else '') + os.path.join(VERIF_ROOT, 'lib')


def replay_subprocess(path, masks=True):
    """Replay a counterexample file in a fresh interpreter without CrossHair tracing."""
    env = dict(os.environ)
    env['PYTHONPATH'] = _pythonpath()
    env['PYTHONDONTWRITEBYTECODE'] = '1'
    if not masks:
        env['VERIF_NO_MASKS'] = '1'
    proc = subprocess.run([sys.executable, '-m', 'verif.runner', '--replay-raw', path],
                          capture_output=True, text=True, env=env, timeout=900)
    out = proc.stdout.strip().splitlines()
    for line in out:
        if line.startswith('REPLAY-VERDICT '):
            return json.loads(line[len('REPLAY-VERDICT '):])
    return {'verdict': 'replay-error', 'detail': (proc.stdout + proc.stderr)[-2000:]}


def replay_many(pid, cond_id, cexs):
    """Replay candidates, each in its own forked process of one helper interpreter (no CrossHair
    tracing, fresh process-global state per candidate).  Returns [(verdict, detail), ...]."""
    os.makedirs(os.path.join(VERIF_ROOT, '.work'), exist_ok=True)
    tmp = os.path.join(VERIF_ROOT, '.work', f'replay-{pid}-{os.getpid()}-{abs(hash(cond_id))}.pickle')
    with open(tmp, 'wb') as f:
        pickle.dump({'property': pid, 'condition': cond_id, 'args': [c['args'] for c in cexs]}, f, protocol=4)
    env = dict(os.environ)
    env['PYTHONPATH'] = _pythonpath()
    env['PYTHONDONTWRITEBYTECODE'] = '1'
    try:
        proc = subprocess.run([sys.executable, '-m', 'verif.runner', '--replay-many', tmp],
                              capture_output=True, text=True, env=env, timeout=1800)
    finally:
        pass
    out = []
    for line in proc.stdout.splitlines():
        if line.startswith('REPLAY-VERDICT '):
            out.append(json.loads(line[len('REPLAY-VERDICT '):]))
    try:
        os.remove(tmp)
    except OSError:
        pass
    while len(out) < len(cexs):
        out.append({'verdict': 'replay-error', 'detail': (proc.stdout + proc.stderr)[-1500:]})
    return out


def replay_many_raw(path):
    with open(path, 'rb') as f:
        doc = pickle.load(f)
    load_property(doc['property'])
    cond = h.REGISTRY[doc['condition']]
    for args in doc['args']:
        rfd, wfd = os.pipe()
        pid = os.fork()
        if pid == 0:
            os.close(rfd)
            try:
                verdict, detail = run_native(cond, args)
            except BaseException as exc:  # noqa
                verdict, detail = 'replay-error', repr(exc)
            with os.fdopen(wfd, 'w') as f:
                f.write(json.dumps({'verdict': verdict, 'detail': detail}))
            os._exit(0)
        os.close(wfd)
        with os.fdopen(rfd) as f:
            data = f.read()
        os.waitpid(pid, 0)
        print('REPLAY-VERDICT ' + (data or json.dumps({'verdict': 'replay-error', 'detail': 'no output'})), flush=True)


def replay_raw(path):
    with open(path) as f:
        doc = json.load(f)
    if os.environ.get('VERIF_NO_MASKS'):
        h.MASKS_DISABLED = True
    load_property(doc['property'])
    cond = h.REGISTRY[doc['condition']]
    args = pickle.loads(base64.b64decode(doc['args_pickle_b64']))
    verdict, detail = run_native(cond, args)
    print('REPLAY-VERDICT ' + json.dumps({'verdict': verdict, 'detail': detail}))


# ---------------------------------------------------------------------------
# known findings

def check_known_findings(pid):
    """Replay the witness of every recorded, unrepaired finding of this property."""
    lines = []
    stale = []
    for entry in h.known_entries(pid):
        wit = entry['witness']
        tmp = os.path.join(VERIF_ROOT, '.work', f'{pid}-known-{entry["mask"]}-{os.getpid()}.json')
        os.makedirs(os.path.dirname(tmp), exist_ok=True)
        args = {k: eval(v, {'datetime': __import__('datetime'), 'Decimal': __import__('decimal').Decimal})
                for k, v in wit['args'].items()}
        doc = {'property': pid, 'condition': wit['condition'], 'tier': 'known',
               'verdict': wit['verdict'], 'detail': entry['what'],
               'args_repr': wit['args'],
               'args_pickle_b64': base64.b64encode(pickle.dumps(args, protocol=4)).decode()}
        with open(tmp, 'w') as f:
            json.dump(doc, f, indent=1)
        got = replay_subprocess(tmp, masks=False)
        os.unlink(tmp)
        if got['verdict'] not in ('ok', 'assumption-failed', 'replay-error'):
            lines.append(f'KNOWN-FINDING: property={pid} {entry["what"]} '
                         f'[mask={entry["mask"]} witness={wit["condition"]} verdict={got["verdict"]}]')
        else:
            stale.append((entry['mask'], got['verdict']))
    return lines, stale


# ---------------------------------------------------------------------------
# main

def check(pid, tier, only=None, seed=0, jobs=JOBS):
    t0 = time.time()
    conds = load_property(pid)
    conds = [c for c in conds if c.tiers.get(tier)]
    if only:
        conds = [c for c in conds if any(fnmatch.fnmatch(c.id, pat) for pat in only)]
    if not conds:
        print(f'no conditions for {pid} tier {tier}')
        return EXIT_HARNESS
    os.environ['VERIF_TIER'] = tier
    print(f'{pid}: {len(conds)} conditions, tier={tier}, jobs={jobs}', flush=True)

    known_lines, stale = check_known_findings(pid) if not only else ([], [])
    for line in known_lines:
        print(line, flush=True)
    for mask, verdict in stale:
        print(f'note: recorded finding {mask} no longer reproduces (witness verdict {verdict})', flush=True)

    results, wall = run_conditions(conds, tier, seed, jobs=jobs)

    violations = []
    spurious = []
    errors = []
    n_replay = 0
    for cid, res in sorted(results.items()):
        if res['status'] == 'REFUTED':
            reproduced = None
            tried = []
            cexs = [c for c in (res.get('cexs') or [res['cex']]) if not c.get('unpicklable')]
            verdicts = replay_many(pid, cid, cexs) if cexs else []
            for cex, got in zip(cexs, verdicts):
                if got['verdict'] in ('ok', 'assumption-failed', 'replay-error'):
                    tried.append(f'{cex["args"]!r} ({cex["verdict"]}) replays as {got["verdict"]}')
                    continue
                n_replay += 1
                path = write_replay(pid, cid, cex, tier, n_replay)
                reproduced = (cid, path, got, cex)
                res['replay'] = got
                break
            if reproduced:
                violations.append(reproduced)
            else:
                spurious.append((cid, f'none of {len(cexs)} counterexample(s) reproduced natively: ' + '; '.join(tried)[:600]))
                res['status'] = 'UNKNOWN'
                res['reason'] = 'spurious counterexample(s): ' + '; '.join(tried)[:400]
        elif res['status'] in ('ERROR', 'VACUOUS'):
            errors.append((cid, res['status'], res.get('reason', '')))
        if res.get('native_mismatch'):
            errors.append((cid, 'NATIVE-MISMATCH', res['native_mismatch']))

    write_evidence(pid, tier, seed, conds, results, violations, known_lines, time.time() - t0, partial=bool(only))

    confirmed = sum(1 for r in results.values() if r['status'] == 'CONFIRMED')
    unknown = sum(1 for r in results.values() if r['status'] == 'UNKNOWN')
    print(f'{pid}: confirmed={confirmed} inconclusive={unknown} refuted={len(violations)} '
          f'errors={len(errors)} of {len(conds)} conditions; wall={time.time() - t0:.1f}s', flush=True)
    for cid, why in spurious:
        print(f'INCONCLUSIVE {cid}: {why}', flush=True)
    for cid, status, why in errors:
        print(f'HARNESS-ERROR {cid}: {status}: {why}', flush=True)
    for cid, path, got, cex in violations:
        print(f'  counterexample {cid}: args={cex["args"]!r} verdict={got["verdict"]} {got.get("detail", "")[-400:]}')
        print(f'VIOLATION property={pid} replay={path}', flush=True)
    if violations:
        return EXIT_VIOLATION
    if errors:
        return EXIT_HARNESS
    return EXIT_OK


def write_evidence(pid, tier, seed, conds, results, violations, known_lines, wall, partial=False):
    by_id = {c.id: c for c in conds}
    confirmed = [r for r in results.values() if r['status'] == 'CONFIRMED']
    unknown = [r for r in results.values() if r['status'] == 'UNKNOWN']
    functions = sorted({f for r in results.values() for f in r.get('functions', [])})
    samples = []
    for cid, r in sorted(results.items()):
        for s in r.get('samples', [])[:1]:
            samples.append({'condition': cid, 'input': {k: repr(v) for k, v in s.items()} if isinstance(s, dict) else s,
                            'verdict': 'ok'})
    tag_pairs = sum(len(r.get('tags', {})) for r in results.values())
    cond_docs = []
    for cid, r in sorted(results.items()):
        c = by_id[cid]
        cond_docs.append({
            'id': cid, 'status': r['status'], 'paths': r.get('paths', 0), 'ok_paths': r.get('ok_paths', 0),
            'assumption_rejected_paths': r.get('ignored_paths', 0),
            'z3_queries': r.get('z3_queries', 0), 'z3_s': r.get('z3_s', 0), 'cpu_s': r.get('cpu_s', 0),
            'budget_s': c.tiers[tier] * BUDGET_SCALE, 'bounds': c.bounds, 'symbolic': c.symbolic, 'enumerated': c.enumerated,
            'tags': r.get('tags', {}), 'reason': r.get('reason', ''),
        })
    total_paths = sum(r.get('paths', 0) for r in results.values())
    ok_paths = sum(r.get('ok_paths', 0) for r in results.values())
    doc = {
        'property_id': pid, 'tier': tier, 'seed': seed, 'level': 'model_checking',
        'wall_s': round(wall, 2), 'violations': len(violations),
        'coverage': {
            'states': max(total_paths, 1), 'transitions': max(sum(r.get('z3_queries', 0) for r in results.values()), 1),
            'traces_validated_against_impl': sum(r.get('native_ok', 0) for r in results.values()),
            'evaluations': max(ok_paths, 1),
            'distinct_nontrivial': len(confirmed) + tag_pairs,
            'rule': ('states = symbolic paths explored (each a z3-satisfiable path condition over the harness '
                     'arguments, i.e. a class of concrete inputs); transitions = z3 satisfiability queries that '
                     'decided the branches; evaluations = paths that reached the assertion; distinct_nontrivial = '
                     'conditions confirmed over all paths (each a distinct obligation with >=1 path reaching the '
                     'assertion) plus distinct (condition, coverage tag) pairs reached; '
                     'traces_validated_against_impl = realised sample inputs re-executed natively against /repo '
                     'with the same verdict.'),
            'obligations': len(conds), 'discharged': len(confirmed), 'inconclusive': len(unknown),
            'refuted_and_replayed': len(violations),
            'exhaustive': len(confirmed) == len(conds),
            'solver': 'z3 (via CrossHair 0.0.110 symbolic execution of the Python source in /repo)',
            'solver_time_s': round(sum(r.get('z3_s', 0) for r in results.values()), 2),
            'cpu_time_s': round(sum(r.get('cpu_s', 0) for r in results.values()), 2),
            'functions_encoded': functions,
            'known_findings_reported': known_lines,
            'samples': samples[:40] or [{'note': 'no path completed'}],
            'conditions': cond_docs,
        },
        'assumptions': sorted({a for c in conds for a in ([c.note] if c.note else [])} | {
            'CrossHair models of int/str/list/date are faithful to CPython (counterexamples are replayed natively; '
            'confirmations rely on the models)',
            'conditions listed as inconclusive are NOT discharged',
        }),
    }
    # a run restricted with --only describes part of the property only: it never replaces evidence/<id>.json
    outdir = os.path.join(VERIF_ROOT, '.work', 'evidence-partial') if partial and not os.environ.get('VERIF_OUT') else EVIDENCE_DIR
    os.makedirs(outdir, exist_ok=True)
    with open(os.path.join(outdir, f'{pid}.json'), 'w') as f:
        json.dump(doc, f, indent=1, default=repr)


def main(argv=None):
    ap = argparse.ArgumentParser()
    ap.add_argument('property', nargs='?')
    ap.add_argument('--tier', default=os.environ.get('VERIF_TIER', 'quick'), choices=['quick', 'thorough'])
    ap.add_argument('--only', action='append')
    ap.add_argument('--replay')
    ap.add_argument('--replay-raw')
    ap.add_argument('--replay-many')
    ap.add_argument('--list', action='store_true')
    ap.add_argument('--jobs', type=int, default=JOBS)
    args = ap.parse_args(argv)
    seed = int(os.environ.get('VERIF_SEED', '0') or 0)
    if args.replay_raw:
        replay_raw(args.replay_raw)
        return 0
    if args.replay_many:
        replay_many_raw(args.replay_many)
        return 0
    if args.replay:
        got = replay_subprocess(args.replay)
        with open(args.replay) as f:
            doc = json.load(f)
        print(f'replay {doc["condition"]} args={doc["args_repr"]} -> {got["verdict"]}')
        if got.get('detail'):
            print(got['detail'])
        if got['verdict'] not in ('ok', 'assumption-failed', 'replay-error'):
            print(f'VIOLATION property={doc["property"]} replay={args.replay}')
            return EXIT_VIOLATION
        return EXIT_OK if got['verdict'] == 'ok' else EXIT_HARNESS
    if args.list:
        for c in load_property(args.property):
            print(c.id, c.tiers, c.bounds)
        return 0
    return check(args.property, args.tier, only=args.only, seed=seed, jobs=args.jobs)


if __name__ == '__main__':
    sys.exit(main())
