"""BQL pretty-printer (mine; precedence table as worded in C06).

OR < AND < NOT < comparison/IN/BETWEEN/IS NULL < + - < * / % < unary minus <
attribute, subscript, call.  Arithmetic is left-associative, comparisons are
non-associative.
"""

import datetime
import decimal

from beanquery.parser import ast

P_OR, P_AND, P_NOT, P_CMP, P_SUM, P_TERM, P_UNARY, P_PRIMARY, P_ATOM = range(1, 10)

BINOPS = {
    ast.Less: ('<', P_CMP), ast.LessEq: ('<=', P_CMP), ast.Greater: ('>', P_CMP), ast.GreaterEq: ('>=', P_CMP),
    ast.Equal: ('=', P_CMP), ast.NotEqual: ('!=', P_CMP), ast.In: ('IN', P_CMP), ast.NotIn: ('NOT IN', P_CMP),
    ast.Match: ('~', P_CMP), ast.NotMatch: ('!~', P_CMP),
    ast.Add: ('+', P_SUM), ast.Sub: ('-', P_SUM),
    ast.Mul: ('*', P_TERM), ast.Div: ('/', P_TERM), ast.Mod: ('%', P_TERM),
}


class Style:
    """Printing options: redundant parentheses, keyword case, token separator."""

    def __init__(self, parens=False, kwcase=0, sep=' ', idcase=0, tight=False):
        # tight: no whitespace around the symbolic operators (a-b, a<=b): whitespace between tokens is optional
        # wherever the tokens stay apart
        self.tight = tight
        self.parens = parens
        self.kwcase = kwcase
        self.sep = sep
        self.idcase = idcase

    def kw(self, word):
        if self.kwcase == 1:
            return word.lower()
        if self.kwcase == 2:
            return ''.join(c.lower() if i % 2 else c.upper() for i, c in enumerate(word))
        return word

    def ident(self, name):
        if self.idcase == 1:
            return name.upper()
        if self.idcase == 2:
            return ''.join(c.upper() if i % 2 else c for i, c in enumerate(name))
        return name


PLAIN = Style()


def prec(node):
    if isinstance(node, ast.Or):
        return P_OR
    if isinstance(node, ast.And):
        return P_AND
    if isinstance(node, ast.Not):
        return P_NOT
    if isinstance(node, (ast.IsNull, ast.IsNotNull, ast.Between)):
        return P_CMP
    if type(node) in BINOPS:
        return BINOPS[type(node)][1]
    if isinstance(node, ast.Neg):
        return P_UNARY
    if isinstance(node, (ast.Attribute, ast.Subscript)):
        return P_PRIMARY
    return P_ATOM


def literal(value, st=PLAIN):
    if value is None:
        return st.kw('NULL')
    if value is True:
        return st.kw('TRUE')
    if value is False:
        return st.kw('FALSE')
    if isinstance(value, int):
        return str(value)
    if isinstance(value, decimal.Decimal):
        text = format(value, 'f')
        if '.' not in text:
            text += '.'
        return text
    if isinstance(value, datetime.date):
        return value.isoformat()
    if isinstance(value, str):
        return "'" + value + "'" if "'" not in value else '"' + value + '"'
    if isinstance(value, list):
        if len(value) == 1:
            return '(' + literal(value[0], st) + ',)'
        return '(' + ', '.join(literal(v, st) for v in value) + ')'
    raise TypeError(value)


def expr(node, st=PLAIN, minprec=0):
    """Text of an expression; parenthesised when its precedence is below minprec."""
    p = prec(node)
    text = _expr(node, st)
    if p < minprec or (st.parens and p < P_ATOM):
        return '(' + text + ')'
    return text


def _join(st, *parts):
    return st.sep.join(parts)


def _expr(node, st):
    if isinstance(node, ast.Constant):
        return literal(node.value, st)
    if isinstance(node, ast.Column):
        return st.ident(node.name)
    if isinstance(node, ast.Placeholder):
        return '%s' if node.name is None or isinstance(node.name, int) else f'%({node.name})s'
    if isinstance(node, ast.Asterisk):
        return '*'
    if isinstance(node, ast.Or):
        return _join(st, *_interleave([expr(a, st, P_AND) for a in node.args], st.kw('OR')))
    if isinstance(node, ast.And):
        return _join(st, *_interleave([expr(a, st, P_NOT) for a in node.args], st.kw('AND')))
    if isinstance(node, ast.Not):
        return _join(st, st.kw('NOT'), expr(node.operand, st, P_NOT))
    if isinstance(node, ast.IsNull):
        return _join(st, expr(node.operand, st, P_SUM), st.kw('IS'), st.kw('NULL'))
    if isinstance(node, ast.IsNotNull):
        return _join(st, expr(node.operand, st, P_SUM), st.kw('IS'), st.kw('NOT'), st.kw('NULL'))
    if isinstance(node, ast.Between):
        return _join(st, expr(node.operand, st, P_SUM), st.kw('BETWEEN'), expr(node.lower, st, P_SUM),
                     st.kw('AND'), expr(node.upper, st, P_SUM))
    if type(node) in BINOPS:
        sym, p = BINOPS[type(node)]
        if p == P_CMP:
            left = expr(node.left, st, P_SUM)
            if isinstance(node.right, ast.Select):
                right = '(' + select(node.right, st) + ')'
            else:
                right = expr(node.right, st, P_SUM)
            sym = st.sep.join(st.kw(w) for w in sym.split())
        else:
            # left-associative: the right operand needs the next level
            left = expr(node.left, st, p)
            right = expr(node.right, st, p + 1)
        if st.tight and not sym[0].isalpha():
            return left + sym + right
        return _join(st, left, sym, right)
    if isinstance(node, ast.Neg):
        inner = expr(node.operand, st, P_UNARY)
        return '-' + (' ' if inner.startswith('-') else '') + inner
    if isinstance(node, ast.Attribute):
        # the operand of an attribute / subscript is a primary: the grammar allows no parentheses there
        return _expr(node.operand, st) + '.' + st.ident(node.name)
    if isinstance(node, ast.Subscript):
        return _expr(node.operand, st) + '[' + literal(node.key, st) + ']'
    if isinstance(node, ast.Function):
        args = ', '.join('*' if isinstance(o, ast.Asterisk) else expr(o, Style(False, st.kwcase, st.sep, st.idcase, st.tight))
                         for o in node.operands)
        return f'{st.ident(node.fname)}({args})'
    if isinstance(node, ast.Select):
        return '(' + select(node, st) + ')'
    raise TypeError(type(node))


def _interleave(items, word):
    out = []
    for i, item in enumerate(items):
        if i:
            out.append(word)
        out.append(item)
    return out


def from_clause(node, st=PLAIN):
    if isinstance(node, ast.Table):
        return '#' + node.name
    if isinstance(node, ast.Select):
        return '(' + select(node, st) + ')'
    parts = []
    if node.expression is not None:
        parts.append(expr(node.expression, st))
    if node.open is not None:
        parts += [st.kw('OPEN'), st.kw('ON'), node.open.isoformat()]
    if node.close is not None:
        parts.append(st.kw('CLOSE'))
        if node.close is not True:
            parts += [st.kw('ON'), node.close.isoformat()]
    if node.clear:
        parts.append(st.kw('CLEAR'))
    return st.sep.join(parts)


def _ref(col, st):
    return str(col) if isinstance(col, int) else expr(col, st)


def select(node, st=PLAIN):
    parts = [st.kw('SELECT')]
    if node.distinct:
        parts.append(st.kw('DISTINCT'))
    if isinstance(node.targets, ast.Asterisk):
        parts.append('*')
    else:
        tt = []
        for t in node.targets:
            text = expr(t.expression, st)
            if t.name is not None:
                text += st.sep + st.kw('AS') + st.sep + st.ident(t.name)
            tt.append(text)
        parts.append((',' + st.sep).join(tt))
    if node.from_clause is not None:
        parts += [st.kw('FROM'), from_clause(node.from_clause, st)]
    if node.where_clause is not None:
        parts += [st.kw('WHERE'), expr(node.where_clause, st)]
    if node.group_by is not None:
        parts += [st.kw('GROUP'), st.kw('BY'), (',' + st.sep).join(_ref(c, st) for c in node.group_by.columns)]
        if node.group_by.having is not None:
            parts += [st.kw('HAVING'), expr(node.group_by.having, st)]
    if node.order_by:
        oo = []
        for o in node.order_by:
            text = _ref(o.column, st)
            if o.ordering == ast.Ordering.DESC:
                text += st.sep + st.kw('DESC')
            oo.append(text)
        parts += [st.kw('ORDER'), st.kw('BY'), (',' + st.sep).join(oo)]
    if node.pivot_by is not None:
        parts += [st.kw('PIVOT'), st.kw('BY'), (',' + st.sep).join(_ref(c, st) for c in node.pivot_by.columns)]
    if node.limit is not None:
        parts += [st.kw('LIMIT'), str(node.limit)]
    return st.sep.join(parts)


def statement(node, st=PLAIN):
    if isinstance(node, ast.Select):
        return select(node, st)
    if isinstance(node, ast.Balances):
        parts = [st.kw('BALANCES')]
        if node.summary_func:
            parts += [st.kw('AT'), st.ident(node.summary_func)]
        if node.from_clause is not None:
            parts += [st.kw('FROM'), from_clause(node.from_clause, st)]
        if node.where_clause is not None:
            parts += [st.kw('WHERE'), expr(node.where_clause, st)]
        return st.sep.join(parts)
    if isinstance(node, ast.Journal):
        parts = [st.kw('JOURNAL')]
        if node.account:
            parts.append(literal(node.account, st))
        if node.summary_func:
            parts += [st.kw('AT'), st.ident(node.summary_func)]
        if node.from_clause is not None:
            parts += [st.kw('FROM'), from_clause(node.from_clause, st)]
        return st.sep.join(parts)
    if isinstance(node, ast.Print):
        parts = [st.kw('PRINT')]
        if node.from_clause is not None:
            parts += [st.kw('FROM'), from_clause(node.from_clause, st)]
        return st.sep.join(parts)
    raise TypeError(type(node))


# -- AST construction helpers -------------------------------------------------

def sel(targets, table=None, where=None, group_by=None, order_by=None, pivot_by=None, limit=None,
        distinct=None, from_clause=None):
    if from_clause is None and table is not None:
        from_clause = ast.Table(table)
    return ast.Select(targets, from_clause, where, group_by, order_by, pivot_by, limit, distinct)


def col(name):
    return ast.Column(name)


def const(value):
    return ast.Constant(value)


def target(expression, name=None):
    return ast.Target(expression, name)


def func(fname, *operands):
    return ast.Function(fname, list(operands))


# -- generic AST rewriting ------------------------------------------------------

def map_ast(node, fn):
    """Rebuild an AST bottom-up, replacing each node by fn(node) (fn may return the node itself)."""
    import dataclasses
    if isinstance(node, ast.Node):
        kwargs = {}
        for field in dataclasses.fields(node):
            if field.name == 'parseinfo':
                kwargs['parseinfo'] = node.parseinfo
                continue
            kwargs[field.name] = map_ast(getattr(node, field.name), fn)
        return fn(type(node)(**kwargs))
    if isinstance(node, list):
        return [map_ast(item, fn) for item in node]
    return node


def placeholders_in_text_order(tree):
    nodes = [n for n in tree.walk() if isinstance(n, ast.Placeholder)]
    return sorted(nodes, key=lambda n: n.parseinfo.pos)


def substitute_placeholders(tree, params):
    """The statement with the parameter values written as constants: positional parameters bind
    in left-to-right textual order, named ones by name."""
    if isinstance(params, dict):
        def fn(node):
            if isinstance(node, ast.Placeholder):
                return ast.Constant(params[node.name])
            return node
        return map_ast(tree, fn)
    order = {id(n): i for i, n in enumerate(placeholders_in_text_order(tree))}
    # map_ast rebuilds nodes, so identify placeholders by source position instead of identity
    pos_index = {n.parseinfo.pos: order[id(n)] for n in placeholders_in_text_order(tree)}

    def fn(node):
        if isinstance(node, ast.Placeholder):
            return ast.Constant(params[pos_index[node.parseinfo.pos]])
        return node
    return map_ast(tree, fn)
