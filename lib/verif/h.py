"""Harness-side helpers: condition registry, assume / cover / known-finding masks.

A *condition* is a Python function whose parameters are the quantified objects
of one obligation.  It runs the real beanquery code on them and returns the
verdict label ``'ok'`` or the name of the clause that failed.  The engine
(engine.py) executes it symbolically; replay (runner.py) executes it natively
on the concrete counterexample.
"""

import collections
import inspect
import json
import os

try:
    from crosshair.util import IgnoreAttempt
    from crosshair.tracers import NoTracing, ResumedTracing, is_tracing
except Exception:  # pragma: no cover - replay never needs crosshair but has it anyway
    IgnoreAttempt = None


VERIF_ROOT = os.path.dirname(os.path.dirname(os.path.dirname(os.path.abspath(__file__))))


class AssumptionFailed(Exception):
    """Raised natively (replay / calibration) when a harness assumption is false."""


def symbolic_mode():
    return IgnoreAttempt is not None and is_tracing()


def assume(cond):
    """Restrict the inputs (a precondition checked inside the body)."""
    if not cond:
        if symbolic_mode():
            raise IgnoreAttempt('assume')
        raise AssumptionFailed()


# ---- coverage tags -------------------------------------------------------
# cover(tag) records that the current path went through an interesting case.
# Tags are collected per path and committed only for paths that complete with
# a verdict (so they witness reachability of the assertion).

_PATH_TAGS = []


def cover(tag):
    _PATH_TAGS.append(tag)


def _take_path_tags():
    tags = list(_PATH_TAGS)
    del _PATH_TAGS[:]
    return tags


# ---- known findings ------------------------------------------------------

_KNOWN = None
MASKS_DISABLED = False


def _load_known():
    global _KNOWN
    if _KNOWN is None:
        path = os.path.join(VERIF_ROOT, 'known_findings.json')
        _KNOWN = {}
        if os.path.exists(path):
            with open(path) as f:
                doc = json.load(f)
            for entry in doc.get('findings', []):
                if entry.get('status') == 'known':
                    _KNOWN[entry['mask']] = entry
    return _KNOWN


def known(mask):
    """True when the recorded (unrepaired) finding ``mask`` is active.

    Harnesses use it to tolerate *exactly* the recorded wrong behaviour:
        if got != want and not (known('C10.x') and got == <the recorded wrong value>):
            return 'clause'
    """
    if MASKS_DISABLED:
        return False
    return mask in _load_known()


def known_entries(property_id):
    return [e for e in _load_known().values() if e['property'] == property_id]


# ---- registry ------------------------------------------------------------

class Cond:
    def __init__(self, cid, fn, params, *, tiers, timeout, bounds, symbolic, enumerated,
                 must_cover, per_path_timeout, group, note):
        self.id = cid
        self.fn = fn
        self.params = params            # OrderedDict name -> type annotation
        self.tiers = tiers              # {'quick': timeout_s or None, 'thorough': ...}
        self.timeout = timeout
        self.bounds = bounds
        self.symbolic = symbolic
        self.enumerated = enumerated
        self.must_cover = tuple(must_cover)
        self.per_path_timeout = per_path_timeout
        self.group = group
        self.note = note

    @property
    def property_id(self):
        return self.id.split('.')[0]

    def signature(self):
        return inspect.Signature([
            inspect.Parameter(name, inspect.Parameter.POSITIONAL_OR_KEYWORD, annotation=typ)
            for name, typ in self.params.items()])


REGISTRY = collections.OrderedDict()


def cond(cid, *, quick=60, thorough=None, bounds='', symbolic='', enumerated='',
         must_cover=(), per_path_timeout=None, params=None, group=None, note=''):
    """Register a condition.

    quick / thorough: CPU budget in seconds for that tier, or None when the
    condition is not part of the tier (thorough defaults to 4 x quick).
    """
    def decorator(fn):
        p = params
        if p is None:
            sig = inspect.signature(fn)
            p = collections.OrderedDict((n, prm.annotation) for n, prm in sig.parameters.items())
        tiers = {'quick': quick,
                 'thorough': thorough if thorough is not None else (quick * 4 if quick else None)}
        if cid in REGISTRY:
            raise RuntimeError(f'duplicate condition id {cid}')
        REGISTRY[cid] = Cond(cid, fn, collections.OrderedDict(p), tiers=tiers, timeout=quick,
                             bounds=bounds, symbolic=symbolic, enumerated=enumerated,
                             must_cover=must_cover, per_path_timeout=per_path_timeout,
                             group=group or cid.rsplit('.', 1)[0], note=note)
        return fn
    return decorator


def native(fn, *a, **kw):
    """Run fn natively (concrete speed) even when called from a traced harness."""
    if symbolic_mode():
        with NoTracing():
            return fn(*a, **kw)
    return fn(*a, **kw)


def enum_int(x, lo, hi):
    """Concretise a small symbolic int by explicit forking (one path per value).

    Needed wherever the value indexes a concrete container or selects among
    Python objects: CrossHair would otherwise build a symbolic container /
    opaque object proxy, which is both slow and imprecise.
    """
    assume(lo <= x <= hi)
    for v in range(lo, hi):
        if x == v:
            return v
    return hi


def pick(options, k):
    """Select options[k] for symbolic k by explicit forking; returns the concrete element."""
    return options[enum_int(k, 0, len(options) - 1)]


def enum_bool(b):
    return True if b else False
