"""Solver-based checking of beancount/beanquery: harness driver and harnesses.

See /verif/DESIGN.md.  The real code is imported from /repo's working tree and
is executed symbolically by CrossHair (z3); nothing of beanquery is copied here.
"""
