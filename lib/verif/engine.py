"""Symbolic exploration of one condition with CrossHair's engine (z3).

The loop below is CrossHair's own path-exploration loop (``crosshair.core.
explore_paths``) with bookkeeping added: whether the path tree was exhausted,
how many paths reached a verdict, z3 query count and time, coverage tags, and
the concrete (realised) arguments of the first failing path.

Verdicts:
  CONFIRMED  the path tree is exhausted, every path returned 'ok', at least one
             path reached the verdict (non-vacuous) and all must_cover tags hit.
  REFUTED    a path returned a verdict other than 'ok' or raised; the model of
             its path condition is returned as concrete arguments.
  UNKNOWN    budget ended, a path timed out, z3 answered unknown, or CrossHair
             could not model something (status cap) -> inconclusive.
  VACUOUS    tree exhausted but no path reached a verdict / a must_cover tag was
             never hit -> harness error.
"""

import collections
import pickle
import sys
import time
import traceback
from time import process_time

from . import h


def _import_crosshair():
    import crosshair.core_and_libs  # noqa: F401  (registers the library shims)
    import crosshair.core as core
    return core


class Z3Meter:
    """Counts and times every z3 check issued while exploring."""

    def __init__(self):
        self.queries = 0
        self.seconds = 0.0
        self.unknown = 0

    def install(self):
        import z3
        meter = self
        orig = z3.Solver.check

        def check(solver, *a, **kw):
            t0 = time.perf_counter()
            try:
                r = orig(solver, *a, **kw)
            finally:
                meter.seconds += time.perf_counter() - t0
                meter.queries += 1
            if str(r) == 'unknown':
                meter.unknown += 1
            return r
        z3.Solver.check = check


def explore(cond, budget, per_path_timeout=None, max_samples=5, seed=0, max_cex=40):
    core = _import_crosshair()
    from crosshair.core import (AnalysisOptionSet, DEFAULT_OPTIONS, Patched, COMPOSITE_TRACER,
                                NoTracing, ResumedTracing, StateSpaceContext, StateSpace,
                                ExceptionFilter, gen_args, deep_realize, CallAnalysis,
                                VerificationStatus, condition_parser)
    from crosshair.copyext import CopyMode, deepcopyext
    from crosshair.statespace import RootNode, NotDeterministic
    from crosshair.util import IgnoreAttempt, UnexploredPath

    meter = Z3Meter()
    meter.install()

    if per_path_timeout is None:
        per_path_timeout = cond.per_path_timeout or max(10.0, budget / 4.0)
    options = DEFAULT_OPTIONS.overlay(AnalysisOptionSet(
        per_condition_timeout=float(budget), per_path_timeout=float(per_path_timeout),
        max_uninteresting_iterations=sys.maxsize))
    sig = cond.signature()
    fn = cond.fn
    search_root = RootNode()

    res = {
        'id': cond.id, 'status': 'UNKNOWN', 'paths': 0, 'ok_paths': 0, 'ignored_paths': 0,
        'unknown_paths': 0, 'reason': '', 'tags': {}, 'samples': [], 'cex': None, 'cexs': [],
    }
    tags = collections.Counter()
    start = process_time()
    wall0 = time.time()
    exhausted = False
    top_status = None

    for i in range(1, sys.maxsize):
        itr_start = process_time()
        if itr_start > start + budget:
            res['reason'] = f'budget of {budget}s CPU exhausted after {i - 1} paths'
            break
        space = StateSpace(execution_deadline=itr_start + per_path_timeout,
                           model_check_timeout=per_path_timeout / 2,
                           search_root=search_root)
        res['paths'] += 1
        failing = None
        with condition_parser(options.analysis_kind), Patched(), COMPOSITE_TRACER, NoTracing(), \
                StateSpaceContext(space):
            h._take_path_tags()
            try:
                pre_args = gen_args(sig)
                args = deepcopyext(pre_args, CopyMode.REGULAR, {})
                ret = None
                with ExceptionFilter() as efilter, ResumedTracing():
                    ret = fn(**args.arguments)
                if efilter.ignore:
                    raise IgnoreAttempt('ignored')
                if efilter.user_exc is not None:
                    exc, stack = efilter.user_exc
                    if isinstance(exc, NotDeterministic):
                        raise exc
                    verdict = 'exception:' + type(exc).__name__
                    detail = ''.join(traceback.format_exception_only(type(exc), exc)).strip()
                    with ResumedTracing():
                        space.detach_path(exc)
                    failing = (verdict, detail, ''.join(stack.format()[-6:]))
                else:
                    with ResumedTracing():
                        isok = bool(ret == 'ok')
                    if not isok:
                        with ResumedTracing():
                            space.detach_path()
                        failing = (str(deep_realize(ret)), '', '')
                path_tags = h._take_path_tags()
                if failing is not None:
                    concrete = deep_realize(pre_args)
                    res['cexs'].append({'args': dict(concrete.arguments), 'verdict': failing[0],
                                        'detail': failing[1], 'where': failing[2]})
                    if res['cex'] is None:
                        res['cex'] = res['cexs'][0]
                    status = VerificationStatus.REFUTED
                else:
                    res['ok_paths'] += 1
                    for t in path_tags:
                        tags[t] += 1
                    if len(res['samples']) < max_samples:
                        with ResumedTracing():
                            space.detach_path()
                        concrete = deep_realize(pre_args)
                        res['samples'].append(dict(concrete.arguments))
                    status = VerificationStatus.CONFIRMED
            except IgnoreAttempt:
                res['ignored_paths'] += 1
                status = None
            except UnexploredPath as e:
                res['unknown_paths'] += 1
                if not res['reason']:
                    res['reason'] = f'unexplored path: {type(e).__name__}: {e}'[:300]
                status = VerificationStatus.UNKNOWN
            except NotDeterministic:
                res['unknown_paths'] += 1
                res['reason'] = 'NotDeterministic'
                status = VerificationStatus.UNKNOWN
            top, exhausted = space.bubble_status(CallAnalysis(status))
            top_status = top.verification_status if top is not None else None
        if failing is not None:
            # Keep exploring for a few more failing paths: when process-global state leaks from one
            # path to the next, the first failing input may not fail in isolation while a later one does.
            res['status'] = 'REFUTED'
            if len(res['cexs']) >= max_cex or process_time() > start + min(budget, 60):
                break
        if exhausted:
            break

    res['cpu_s'] = round(process_time() - start, 3)
    res['wall_s'] = round(time.time() - wall0, 3)
    res['z3_queries'] = meter.queries
    res['z3_s'] = round(meter.seconds, 3)
    res['z3_unknown'] = meter.unknown
    res['tags'] = dict(tags)
    if res['status'] != 'REFUTED':
        if exhausted and top_status == VerificationStatus.CONFIRMED and res['unknown_paths'] == 0:
            missing = [t for t in cond.must_cover if t not in tags]
            if res['ok_paths'] == 0:
                res['status'] = 'VACUOUS'
                res['reason'] = 'no path reached a verdict (assumptions unsatisfiable?)'
            elif missing:
                res['status'] = 'VACUOUS'
                res['reason'] = f'must_cover tags never reached: {missing}'
            else:
                res['status'] = 'CONFIRMED'
        else:
            res['status'] = 'UNKNOWN'
            if not res['reason']:
                res['reason'] = f'exhausted={exhausted} top_status={top_status}'
    return res


def dump_args(args):
    return pickle.dumps(args, protocol=4)
