"""Harness tables registered through the public ``Connection.tables`` extension point."""

import datetime
import decimal
import operator

import beanquery
from beanquery import query_compile, tables
import beanquery.query_env  # noqa: F401  registers the functions and aggregates

from . import h


def make_column(index, dtype, name):
    class Col(query_compile.EvalColumn):
        def __init__(self):
            super().__init__(dtype)
        __call__ = staticmethod(operator.itemgetter(index))
    Col.__name__ = f'HCol_{name}'
    return Col()


class HTable(tables.Table):
    """A table over a list of row tuples with typed, individually-classed columns."""

    def __init__(self, name, columns, rows):
        # columns: list of (name, dtype)
        self.name = name
        self.columns = {cname: make_column(i, dtype, cname) for i, (cname, dtype) in enumerate(columns)}
        self.rows = rows
        self.scans = 0

    def __iter__(self):
        self.scans += 1
        return iter(self.rows)


def connect(**tables_):
    """A Connection with the given harness tables (name -> HTable)."""
    conn = beanquery.Connection()
    for name, table in tables_.items():
        conn.tables[name] = table
    return conn


_PARSE_CACHE = {}


def _parse_cached(text):
    tree = _PARSE_CACHE.get(text)
    if tree is None:
        tree = beanquery.parser.parse(text)
        if any(isinstance(n, beanquery.parser.ast.Placeholder) for n in tree.walk()):
            return tree         # the compiler renumbers placeholders on the tree: never share
        _PARSE_CACHE[text] = tree
    return tree


_PRISTINE = {}


def _parse_fresh(text):
    import copy
    tree = _PRISTINE.get(text)
    if tree is None:
        tree = _PRISTINE[text] = beanquery.parser.parse(text)
    return copy.deepcopy(tree)


def parse_fresh(text):
    """A private copy of the parsed statement (parsed once per process, deep-copied per use:
    the compiler is allowed to annotate the tree it is given)."""
    return h.native(_parse_fresh, text)


def parse(text):
    """Parse concrete text with the real parser at native speed (R5).  Trees without
    placeholders are cached per process (the same text recurs on every path)."""
    return h.native(_parse_cached, text)


def run(conn, text_or_ast, params=None):
    """compile + execute through the public cursor; returns (description, rows)."""
    stmt = parse(text_or_ast) if isinstance(text_or_ast, str) else text_or_ast
    cur = conn.cursor()
    cur.execute(stmt, params)
    return cur.description, cur.fetchall()


def execute(conn, stmt, params=None):
    """Compile natively (the statement is concrete: nothing for the solver to decide), execute
    symbolically.  Returns (description, rows) as Cursor.execute + fetchall would."""
    from beanquery import compiler, query_execute
    if isinstance(stmt, str):
        stmt = parse(stmt)
    query = h.native(compiler.compile, conn, stmt, params)
    return query_execute.execute_query(query)


D = decimal.Decimal
DATE0 = datetime.date(2000, 1, 1)


def mkdate(y, m, d):
    """A date from three (symbolic) ints, assumed valid."""
    h.assume(1 <= m <= 12 and 1 <= d <= 28 or _valid_day(y, m, d))
    return datetime.date(y, m, d)


def _valid_day(y, m, d):
    if not (1 <= m <= 12 and 1 <= d <= 31):
        return False
    if m in (4, 6, 9, 11):
        return d <= 30
    if m == 2:
        leap = (y % 4 == 0 and y % 100 != 0) or y % 400 == 0
        return d <= (29 if leap else 28)
    return True
