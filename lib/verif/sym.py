"""Value domains for harness arguments (rules R2-R4 of DESIGN.md).

Each domain knows which harness parameters it needs and how to build a value
(or NULL) from them.  ``symbolic`` domains hand the solver's terms straight to
the code under test; ``enumerated`` domains fork explicitly over a palette.
"""

import datetime
import decimal
from typing import Optional

from dateutil.relativedelta import relativedelta

from .h import assume, enum_int, pick, cover

D = decimal.Decimal

PALETTE = [D('0'), D('1'), D('-1'), D('2.50'), D('-2.50'), D('0.001'), D('1E+2'), D('12345.678')]
SMALL_PALETTE = [D('0'), D('1'), D('-2.50'), D('0.001')]


class Domain:
    kind = 'symbolic'
    dtype = object

    def params(self, p):
        raise NotImplementedError

    def build(self, p, kw):
        raise NotImplementedError

    def describe(self):
        return self.__class__.__name__


class VInt(Domain):
    dtype = int

    def __init__(self, lo=None, hi=None, nullable=True):
        self.lo, self.hi, self.nullable = lo, hi, nullable

    def params(self, p):
        # NULL-ness is a separate (lazy) boolean: an Optional[...] parameter forks when
        # it is created, even if the harness never looks at it.
        return {p: int, p + '_null': bool} if self.nullable else {p: int}

    def build(self, p, kw):
        if self.nullable and kw[p + '_null']:
            return None
        v = kw[p]
        if self.lo is not None:
            assume(self.lo <= v)
        if self.hi is not None:
            assume(v <= self.hi)
        return v

    def describe(self):
        rng = 'unbounded' if self.lo is None and self.hi is None else f'{self.lo}..{self.hi}'
        return f'int {rng} (symbolic){" or NULL" if self.nullable else ""}'


class VEnumInt(Domain):
    """Small int, concretised by forking (needed where the value meets Decimal or hashing)."""
    kind = 'enumerated'
    dtype = int

    def __init__(self, lo, hi, nullable=True):
        self.lo, self.hi, self.nullable = lo, hi, nullable

    def params(self, p):
        return {p: int}

    def build(self, p, kw):
        hi = self.hi + 1 if self.nullable else self.hi
        v = enum_int(kw[p], self.lo, hi)
        if self.nullable and v == hi:
            return None
        return v

    def describe(self):
        return f'int in {self.lo}..{self.hi} (enumerated){" or NULL" if self.nullable else ""}'


class VBool(Domain):
    dtype = bool

    def params(self, p):
        return {p: bool, p + '_null': bool}

    def build(self, p, kw):
        if kw[p + '_null']:
            return None
        return True if kw[p] else False

    def describe(self):
        return 'bool or NULL (symbolic)'


class VStr(Domain):
    dtype = str

    def __init__(self, maxlen=3, alphabet=None, nullable=True):
        self.maxlen, self.alphabet, self.nullable = maxlen, alphabet, nullable

    def params(self, p):
        return {p: str, p + '_null': bool} if self.nullable else {p: str}

    def build(self, p, kw):
        if self.nullable and kw[p + '_null']:
            return None
        v = kw[p]
        assume(len(v) <= self.maxlen)
        if self.alphabet is not None:
            for ch in v:
                assume(ch in self.alphabet)
        return v

    def describe(self):
        alpha = f' over {self.alphabet!r}' if self.alphabet else ''
        return f'str of length <= {self.maxlen}{alpha} (symbolic){" or NULL" if self.nullable else ""}'


class VDate(Domain):
    dtype = datetime.date

    def __init__(self, ylo=1900, yhi=2100, nullable=True, maxday=31):
        self.ylo, self.yhi, self.nullable, self.maxday = ylo, yhi, nullable, maxday

    def params(self, p):
        d = {p + '_y': int, p + '_m': int, p + '_d': int}
        if self.nullable:
            d[p + '_null'] = bool
        return d

    def build(self, p, kw):
        if self.nullable and kw[p + '_null']:
            return None
        y, m, d = kw[p + '_y'], kw[p + '_m'], kw[p + '_d']
        assume(self.ylo <= y <= self.yhi and 1 <= m <= 12 and 1 <= d <= self.maxday)
        if d > 28:
            if m == 2:
                leap = (y % 4 == 0 and y % 100 != 0) or y % 400 == 0
                assume(d == 29 and leap)
            elif d == 31:
                assume(m in (1, 3, 5, 7, 8, 10, 12))
        return datetime.date(y, m, d)

    def describe(self):
        days = 'every calendar date' if self.maxday == 31 else f'every date with day <= {self.maxday}'
        return f'{days} {self.ylo}-01-01..{self.yhi}-12-31 (symbolic y, m, d){" or NULL" if self.nullable else ""}'


class VDec(Domain):
    kind = 'enumerated'
    dtype = D

    def __init__(self, palette=None, nullable=True):
        self.palette = list(palette if palette is not None else PALETTE)
        self.nullable = nullable

    def params(self, p):
        return {p: int}

    def build(self, p, kw):
        options = self.palette + ([None] if self.nullable else [])
        return pick(options, kw[p])

    def describe(self):
        return f'Decimal from the palette {[str(x) for x in self.palette]}{" or NULL" if self.nullable else ""} (enumerated)'


class VDelta(Domain):
    dtype = relativedelta

    def __init__(self, rng=40, nullable=True, months=2, years=1):
        self.rng, self.nullable, self.months, self.years = rng, nullable, months, years

    def params(self, p):
        d = {p + '_dd': int, p + '_dm': int, p + '_dy': int}
        if self.nullable:
            d[p + '_null'] = bool
        return d

    def build(self, p, kw):
        if self.nullable and kw[p + '_null']:
            return None
        dd, dm, dy = kw[p + '_dd'], kw[p + '_dm'], kw[p + '_dy']
        assume(-self.rng <= dd <= self.rng)
        dm = enum_int(dm, -self.months, self.months)
        dy = enum_int(dy, -self.years, self.years)
        return relativedelta(days=dd, months=dm, years=dy)

    def describe(self):
        return (f'relativedelta(days in +-{self.rng} symbolic, months +-{self.months}, years +-{self.years} enumerated)'
                f'{" or NULL" if self.nullable else ""}')


class Lazy:
    """A palette value built at use time (dates must be built under tracing so that they
    are of the same - modelled - class as the symbolic dates they meet)."""

    def __init__(self, make, text):
        self.make = make
        self.text = text

    def __repr__(self):
        return self.text


class VChoice(Domain):
    """A fixed list of concrete values (optionally NULL), selected by forking."""
    kind = 'enumerated'

    def __init__(self, options, dtype=object, nullable=False):
        self.options = list(options) + ([None] if nullable else [])
        self.dtype = dtype

    def params(self, p):
        return {p: int}

    def build(self, p, kw):
        v = pick(self.options, kw[p])
        if isinstance(v, Lazy):
            return v.make()
        return v

    def describe(self):
        return f'one of {self.options!r} (enumerated)'


OBJECT_VALUES = [None, 1, D('2.50'), 'abc', '3', True, Lazy(lambda: datetime.date(2020, 2, 29), 'date(2020, 2, 29)'),
                 '2020-02-29', D('0')]


def domain_for(dtype, quick=True):
    """Default domain of a column/operand dtype."""
    if dtype is int:
        return VInt()
    if dtype is bool:
        return VBool()
    if dtype is str:
        return VStr(3)
    if dtype is datetime.date:
        return VDate()
    if dtype is D:
        return VDec()
    if dtype is relativedelta:
        return VDelta()
    if dtype is object:
        return VChoice(OBJECT_VALUES, object)
    raise KeyError(dtype)


def build_all(domains, kw):
    """domains: dict prefix -> Domain; returns dict prefix -> value."""
    return {p: dom.build(p, kw) for p, dom in domains.items()}


def all_params(domains):
    out = {}
    for p, dom in domains.items():
        out.update(dom.params(p))
    return out


def describe_all(domains):
    return '; '.join(f'{p}: {dom.describe()}' for p, dom in domains.items())
