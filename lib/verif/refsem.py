"""Reference semantics of BQL, written from the wording of the properties.

An independent interpreter over ``beanquery.parser.ast`` trees and plain Python
rows.  It shares no code with compiler.py / query_compile.py / query_execute.py;
the overload registries are read as *data* only (``__intypes__`` and the
declared result type) by ``lookup`` which re-implements the lookup rule.

It runs on the same (possibly symbolic) values as the implementation, so a
disagreement is a path condition the solver can satisfy.
"""

import datetime
import decimal
import functools
import re

from dateutil.relativedelta import relativedelta

from beanquery.parser import ast

Decimal = decimal.Decimal
NoneType = type(None)


class Reject(Exception):
    """The statement must be rejected at compile time."""


class Unsupported(Exception):
    """Outside what the reference semantics models (the family must not generate it)."""


# ---------------------------------------------------------------------------
# scalar operators, from the wording of C01

def _truth(x):
    return bool(x)


def op_not(x):
    # NOT NULL is TRUE
    if x is None:
        return True
    return not _truth(x)


def op_and(thunks):
    # AND stops at its first NULL or false operand
    for t in thunks:
        v = t()
        if v is None:
            return None
        if not _truth(v):
            return False
    return True


def op_or(thunks):
    # OR is TRUE if any operand is true, else NULL if any is NULL
    values = [t() for t in thunks]
    for v in values:
        if v is not None and _truth(v):
            return True
    for v in values:
        if v is None:
            return None
    return False


def op_coalesce(thunks):
    for t in thunks:
        v = t()
        if v is not None:
            return v
    return None


def _is_dec(x):
    return isinstance(x, Decimal)


def _arith(name, x, y):
    if isinstance(x, datetime.date) or isinstance(y, datetime.date) or \
            isinstance(x, relativedelta) or isinstance(y, relativedelta):
        return _date_arith(name, x, y)
    if name == 'add':
        return x + y
    if name == 'sub':
        return x - y
    if name == 'mul':
        return x * y
    if name == 'div':
        if y == 0:
            return None
        if not _is_dec(x) and not _is_dec(y):
            return Decimal(x) / Decimal(y)
        return x / y
    if name == 'mod':
        if y == 0:
            return None
        return x % y
    raise Unsupported(name)


def _date_arith(name, x, y):
    xd, yd = isinstance(x, datetime.date), isinstance(y, datetime.date)
    if name == 'add':
        if xd and isinstance(y, int):
            return x + datetime.timedelta(days=y)
        if yd and isinstance(x, int):
            return y + datetime.timedelta(days=x)
        return x + y
    if name == 'sub':
        if xd and yd:
            return (x - y).days
        if xd and isinstance(y, int):
            return x - datetime.timedelta(days=y)
        return x - y
    raise Unsupported(name)


_BIN = {
    ast.Add: lambda x, y: _arith('add', x, y),
    ast.Sub: lambda x, y: _arith('sub', x, y),
    ast.Mul: lambda x, y: _arith('mul', x, y),
    ast.Div: lambda x, y: _arith('div', x, y),
    ast.Mod: lambda x, y: _arith('mod', x, y),
    ast.Equal: lambda x, y: x == y,
    ast.NotEqual: lambda x, y: not (x == y),
    ast.Less: lambda x, y: x < y,
    ast.LessEq: lambda x, y: x < y or x == y,
    ast.Greater: lambda x, y: y < x,
    ast.GreaterEq: lambda x, y: y < x or x == y,
    ast.Match: lambda x, y: re.search(y, x, re.IGNORECASE) is not None,
    ast.NotMatch: lambda x, y: re.search(y, x, re.IGNORECASE) is None,
    ast.In: lambda x, y: _member(x, y),
    ast.NotIn: lambda x, y: not _member(x, y),
}


def _member(x, coll):
    for item in coll:
        if item is x or item == x:
            return True
    return False


def apply_binary(cls, x, y):
    """NULL-strict binary operator."""
    if x is None or y is None:
        return None
    return _BIN[cls](x, y)


def apply_unary(cls, x):
    if cls is ast.Not:
        return op_not(x)
    if cls is ast.IsNull:
        return x is None
    if cls is ast.IsNotNull:
        return x is not None
    if cls is ast.Neg:
        return None if x is None else -x
    raise Unsupported(cls)


def apply_between(x, lo, hi):
    if x is None or lo is None or hi is None:
        return None
    return (lo < x or lo == x) and (x < hi or x == hi)


# ---------------------------------------------------------------------------
# type casts, from the wording of C18: the converted value or NULL, never an error

def cast_decimal(x):
    if x is None:
        return None
    if isinstance(x, bool):
        return Decimal(int(x))
    if isinstance(x, (int, Decimal)):
        return Decimal(x)
    if isinstance(x, str):
        try:
            return Decimal(x)
        except (decimal.InvalidOperation, ValueError):
            return None
    return None


def cast_int(x):
    if x is None:
        return None
    if isinstance(x, bool):
        return int(x)
    if isinstance(x, int):
        return x
    if isinstance(x, Decimal):
        if not x.is_finite():
            return None
        return int(x)
    if isinstance(x, str):
        try:
            return int(x)
        except ValueError:
            return None
    return None


def cast_str(x):
    if x is None:
        return None
    if x is True:
        return 'TRUE'
    if x is False:
        return 'FALSE'
    return str(x)


def cast_bool(x):
    if x is None:
        return None
    return bool(x)


def cast_date(x):
    if x is None:
        return None
    if isinstance(x, datetime.date):
        return x
    if isinstance(x, str):
        m = re.fullmatch(r'(\d{4})-(\d{1,2})-(\d{1,2})', x)
        if m:
            try:
                return datetime.date(int(m.group(1)), int(m.group(2)), int(m.group(3)))
            except ValueError:
                return None
    return None


CASTS = {Decimal: cast_decimal, int: cast_int, str: cast_str, bool: cast_bool, datetime.date: cast_date}

# a few total scalar functions usable in the expression families
SCALAR_FUNCS = {
    'length': lambda x: len(x),
    'upper': lambda x: x.upper(),
    'lower': lambda x: x.lower(),
    'abs': lambda x: -x if x < 0 else x,
    'neg': lambda x: -x,
    'year': lambda x: x.year,
    'month': lambda x: x.month,
    'day': lambda x: x.day,
    'str': cast_str,
    'int': cast_int,
    'decimal': cast_decimal,
    'bool': cast_bool,
    'date': cast_date,
    'date_add': lambda x, y: x + datetime.timedelta(days=y),
    'date_diff': lambda x, y: (x - y).days,
    'substr': lambda s, a, b: s[a:b],
}

AGGREGATES = ('count', 'sum', 'first', 'last', 'min', 'max')


# ---------------------------------------------------------------------------
# overload lookup, re-implemented from the rule "most specific first over the
# product of the operand types' bases; `object` is not a base of typed values;
# Any matches every type"

def _bases(t):
    if t is NoneType:
        return (object,)
    mro = t.__mro__
    if len(mro) > 1 and mro[-1] is object:
        return mro[:-1]
    return mro


def _product(seqs):
    if not seqs:
        yield ()
        return
    for head in seqs[0]:
        for tail in _product(seqs[1:]):
            yield (head,) + tail


def lookup(registry, name, dtypes):
    """Find the overload for operand dtypes; returns the registered class or None."""
    candidates = registry.get(name, []) if hasattr(registry, 'get') else registry[name]
    for signature in _product([_bases(t) for t in dtypes]):
        for cand in candidates:
            want = cand.__intypes__
            if len(want) != len(signature):
                continue
            if all(_type_matches(w, s) for w, s in zip(want, signature)):
                return cand
    return None


def _type_matches(want, got):
    from beanquery import types
    if want is types.Any:
        return isinstance(got, type)
    return want is got or want == got


def out_type(cand, operand_dtypes):
    """Declared result type of an overload class (registry read as data)."""
    from beanquery import query_compile

    class _T(query_compile.EvalNode):
        def __init__(self, dtype):
            self.dtype = dtype
    stubs = [_T(t) for t in operand_dtypes]
    try:
        if issubclass(cand, query_compile.EvalFunction):
            return cand(None, stubs).dtype
        return cand(*stubs).dtype
    except Exception:
        return None


# ---------------------------------------------------------------------------
# expression interpreter

class Env:
    """Columns of the current table: name -> (index, dtype)."""

    def __init__(self, columns):
        self.columns = {name: (i, dtype) for i, (name, dtype) in enumerate(columns)}
        self.names = [name for name, _ in columns]
        self.has_object = any(dtype is object for _, dtype in columns)


def is_aggregate_call(node):
    return isinstance(node, ast.Function) and node.fname in AGGREGATES


def contains_aggregate(node):
    if is_aggregate_call(node):
        return True
    return any(contains_aggregate(c) for c in children(node))


def children(node):
    if isinstance(node, ast.UnaryOp):
        return [node.operand]
    if isinstance(node, ast.BinaryOp):
        return [node.left, node.right]
    if isinstance(node, ast.BoolOp):
        return list(node.args)
    if isinstance(node, ast.Between):
        return [node.operand, node.lower, node.upper]
    if isinstance(node, ast.Function):
        return [o for o in node.operands if isinstance(o, ast.Node)]
    if isinstance(node, (ast.Attribute, ast.Subscript)):
        return [node.operand]
    return []


def bare_columns(node):
    """Column references not under an aggregate call."""
    if is_aggregate_call(node):
        return []
    if isinstance(node, ast.Column):
        return [node]
    out = []
    for c in children(node):
        out.extend(bare_columns(c))
    return out


def eval_expr(node, row, env, group=None, subq=None):
    """Value of ``node`` on ``row``; with ``group`` (list of rows) aggregates fold the group."""
    ev = lambda n: eval_expr(n, row, env, group, subq)  # noqa: E731
    if isinstance(node, ast.Constant):
        return node.value
    if isinstance(node, ast.Column):
        idx, _ = env.columns[node.name]
        return row[idx]
    if isinstance(node, ast.And):
        return op_and([functools.partial(ev, a) for a in node.args])
    if isinstance(node, ast.Or):
        return op_or([functools.partial(ev, a) for a in node.args])
    if isinstance(node, ast.UnaryOp):
        return apply_unary(type(node), ev(node.operand))
    if isinstance(node, ast.Between):
        return apply_between(ev(node.operand), ev(node.lower), ev(node.upper))
    if isinstance(node, (ast.In, ast.NotIn)) and isinstance(node.right, ast.Select):
        x = ev(node.left)
        column = subq(node.right)
        if x is None or not column:
            return None
        found = _member(x, column)
        return found if isinstance(node, ast.In) else not found
    if isinstance(node, ast.BinaryOp):
        x, y = ev(node.left), ev(node.right)
        if env.has_object:
            # implicit cast of an untyped (object) operand to the other operand's type
            lt, rt = typeof(node.left, env), typeof(node.right, env)
            cand, lt2, rt2 = binary_overload(type(node), lt, rt)
            if cand is None:
                raise Reject('binary overload')
            if lt2 is not lt:
                x = CASTS[lt2](x)
            if rt2 is not rt:
                y = CASTS[rt2](y)
        return apply_binary(type(node), x, y)
    if isinstance(node, ast.Function):
        if node.fname == 'coalesce':
            return op_coalesce([functools.partial(ev, a) for a in node.operands])
        if node.fname in AGGREGATES:
            if group is None:
                raise Unsupported('aggregate outside a group')
            return fold(node, group, env, subq)
        args = [ev(a) for a in node.operands]
        if any(a is None for a in args):
            return None
        return SCALAR_FUNCS[node.fname](*args)
    raise Unsupported(type(node).__name__)


def fold(node, rows, env, subq=None):
    """Aggregate folds as worded in C02."""
    name = node.fname
    arg = node.operands[0]
    if name == 'count' and isinstance(arg, ast.Asterisk):
        return len(rows)
    values = [eval_expr(arg, r, env, None, subq) for r in rows]
    if name == 'count':
        return sum(1 for v in values if v is not None)
    present = [v for v in values if v is not None]
    if name == 'sum':
        total = None
        for v in present:
            total = v if total is None else total + v
        if total is None:
            dtype = typeof(arg, env)
            return dtype()   # the type's zero
        return total
    if name == 'min':
        best = None
        for v in present:
            if best is None or v < best:
                best = v
        return best
    if name == 'max':
        best = None
        for v in present:
            if best is None or best < v:
                best = v
        return best
    if name == 'first':
        return present[0] if present else None
    if name == 'last':
        return values[-1] if values else None
    raise Unsupported(name)


def typeof(node, env):
    """Result dtype of a (small) expression; enough for the families generated here."""
    from beanquery import query_compile
    if isinstance(node, ast.Constant):
        return type(node.value)
    if isinstance(node, ast.Column):
        if node.name not in env.columns:
            raise Reject(f'column {node.name}')
        return env.columns[node.name][1]
    if isinstance(node, (ast.And, ast.Or, ast.Between)):
        return bool
    if isinstance(node, ast.UnaryOp):
        t = typeof(node.operand, env)
        cand = lookup(query_compile.OPERATORS, type(node), [t])
        if cand is None:
            raise Reject('unary overload')
        return out_type(cand, [t])
    if isinstance(node, (ast.In, ast.NotIn)):
        return bool
    if isinstance(node, ast.BinaryOp):
        lt, rt = typeof(node.left, env), typeof(node.right, env)
        cand, lt, rt = binary_overload(type(node), lt, rt)
        if cand is None:
            raise Reject('binary overload')
        return out_type(cand, [lt, rt])
    if isinstance(node, ast.Function):
        if node.fname == 'coalesce':
            return typeof(node.operands[0], env)
        ts = [typeof(o, env) if not isinstance(o, ast.Asterisk) else _asterisk() for o in node.operands]
        cand = lookup(query_compile.FUNCTIONS, node.fname, ts)
        if cand is None:
            raise Reject('function overload')
        return out_type(cand, ts)
    raise Unsupported(type(node).__name__)


def _asterisk():
    from beanquery import types
    return types.Asterisk


def binary_overload(cls, lt, rt):
    """Exact-type overload; else cast an `object` operand to the other side's type
    (int promoting to decimal).  Returns (candidate, left type, right type)."""
    from beanquery import query_compile
    cands = query_compile.OPERATORS[cls]

    def exact(a, b):
        for cand in cands:
            if list(cand.__intypes__) == [a, b]:
                return cand
        return None
    cand = exact(lt, rt)
    if cand is not None:
        return cand, lt, rt
    if lt is object and rt is not object:
        target = Decimal if rt is int else rt
        if target in CASTS:
            cand = exact(target, rt)
            if cand is not None:
                return cand, target, rt
    if rt is object and lt is not object:
        target = Decimal if lt is int else lt
        if target in CASTS:
            cand = exact(lt, target)
            if cand is not None:
                return cand, lt, target
    return None, lt, rt


# ---------------------------------------------------------------------------
# statements

class Result:
    def __init__(self, names, rows, dtypes=None):
        self.names = names
        self.rows = rows
        self.dtypes = dtypes


class Ref:
    """Reference executor over plain tables: name -> (columns [(name, dtype)], rows)."""

    def __init__(self, tables):
        self.tables = tables

    # -- FROM
    def source(self, from_clause):
        if from_clause is None:
            raise Unsupported('no FROM')
        if isinstance(from_clause, ast.Table):
            if from_clause.name not in self.tables:
                raise Reject('table')
            columns, rows = self.tables[from_clause.name]
            return Env(columns), list(rows)
        if isinstance(from_clause, ast.Select):
            inner = self.select(from_clause)
            columns = list(zip(inner.names, inner.dtypes or [object] * len(inner.names)))
            return Env(columns), list(inner.rows)
        raise Unsupported('FROM expression')

    def subq_column(self, node):
        inner = self.select(node)
        if len(inner.names) != 1:
            raise Reject('IN subquery must have one column')
        return [r[0] for r in inner.rows]

    def target_name(self, target):
        if target.name is not None:
            return target.name
        if isinstance(target.expression, ast.Column):
            return target.expression.name
        text = target.expression.text
        if text is None:
            raise Unsupported('unnamed expression target without source text')
        return text.strip()

    def select(self, stmt):
        env, rows = self.source(stmt.from_clause)
        subq = self.subq_column

        # targets
        if isinstance(stmt.targets, ast.Asterisk):
            targets = [ast.Target(ast.Column(n), None) for n in env.names]
        else:
            targets = list(stmt.targets)
        names = [self.target_name(t) for t in targets]
        exprs = [t.expression for t in targets]
        try:
            dtypes = [typeof(e, env) for e in exprs]
        except Unsupported:
            dtypes = None

        # WHERE keeps the rows whose condition is true (NULL and false exclude)
        if stmt.where_clause is not None:
            if contains_aggregate(stmt.where_clause):
                raise Reject('aggregate in WHERE')
            kept = []
            for r in rows:
                v = eval_expr(stmt.where_clause, r, env, None, subq)
                if v is not None and _truth(v):
                    kept.append(r)
            rows = kept

        # resolve GROUP BY / ORDER BY references
        def resolve(col):
            """-> ('target', i) or ('expr', node)"""
            if isinstance(col, int):
                if not 1 <= col <= len(targets):
                    raise Reject('position out of range')
                return ('target', col - 1)
            if isinstance(col, ast.Column) and col.name in names:
                return ('target', names.index(col.name))
            return ('expr', col)

        group_by = stmt.group_by
        aggregate_query = any(contains_aggregate(e) for e in exprs) or group_by is not None
        order = []
        if stmt.order_by:
            for spec in stmt.order_by:
                order.append((resolve(spec.column), int(spec.ordering)))
            if any(kind == 'expr' and contains_aggregate(node) for (kind, node), _ in order):
                aggregate_query = True

        if not aggregate_query:
            out = []
            for r in rows:
                visible = tuple(eval_expr(e, r, env, None, subq) for e in exprs)
                keys = []
                for (kind, ref), _ in order:
                    keys.append(visible[ref] if kind == 'target' else eval_expr(ref, r, env, None, subq))
                out.append((visible, keys))
        else:
            # grouping keys
            key_exprs = []
            if group_by is not None:
                for col in group_by.columns:
                    kind, ref = resolve(col)
                    node = exprs[ref] if kind == 'target' else ref
                    if contains_aggregate(node):
                        raise Reject('aggregate grouping key')
                    key_exprs.append(node)
                # every non-aggregate target must be covered by GROUP BY
                for e in exprs:
                    if not contains_aggregate(e) and not any(e == k for k in key_exprs):
                        raise Reject('non-aggregate target not covered by GROUP BY')
            else:
                key_exprs = [e for e in exprs if not contains_aggregate(e)]
            for e in exprs:
                if contains_aggregate(e) and bare_columns(e):
                    raise Reject('mixed aggregate and column')
            groups = []   # list of (key, rows) in order of first appearance
            for r in rows:
                key = tuple(eval_expr(k, r, env, None, subq) for k in key_exprs)
                for gkey, grows in groups:
                    if _key_equal(gkey, key):
                        grows.append(r)
                        break
                else:
                    groups.append((key, [r]))
            having = group_by.having if group_by is not None else None
            if having is not None and not contains_aggregate(having):
                raise Reject('HAVING must be aggregate')
            out = []
            for key, grows in groups:
                first = grows[0]
                if having is not None:
                    hv = eval_expr(having, first, env, grows, subq)
                    if hv is None or not _truth(hv):
                        continue
                visible = tuple(eval_expr(e, first, env, grows, subq) for e in exprs)
                keys = []
                for (kind, ref), _ in order:
                    keys.append(visible[ref] if kind == 'target' else eval_expr(ref, first, env, grows, subq))
                out.append((visible, keys))

        # ORDER BY: lexicographic, per-key direction, NULL first (last under DESC), stable
        if order:
            directions = [d for _, d in order]

            def compare(a, b):
                for ka, kb, desc in zip(a[1], b[1], directions):
                    c = _cmp_null_first(ka, kb)
                    if c != 0:
                        return -c if desc else c
                return 0
            out = _stable_sort(out, compare)

        result = [visible for visible, _ in out]
        if stmt.distinct:
            uniq = []
            for r in result:
                if not any(_key_equal(r, u) for u in uniq):
                    uniq.append(r)
            result = uniq
        if stmt.limit is not None:
            result = result[:stmt.limit]
        return Result(names, result, dtypes)


def _key_equal(a, b):
    if len(a) != len(b):
        return False
    for x, y in zip(a, b):
        if x is None or y is None:
            if not (x is None and y is None):
                return False
        elif not (x == y):
            return False
    return True


def _cmp_null_first(a, b):
    if a is None and b is None:
        return 0
    if a is None:
        return -1
    if b is None:
        return 1
    if a < b:
        return -1
    if b < a:
        return 1
    return 0


def _stable_sort(items, compare):
    """Insertion sort: stable by construction, independent of list.sort."""
    out = []
    for item in items:
        pos = len(out)
        while pos > 0 and compare(out[pos - 1], item) > 0:
            pos -= 1
        out.insert(pos, item)
    return out


def pivot(names, dtypes, rows, col1, col2):
    """PIVOT BY as worded in C15, applied to an un-pivoted result."""
    others = [i for i in range(len(names)) if i not in (col1, col2)]
    keys2 = []
    for r in rows:
        if not any(_key_equal((r[col2],), (k,)) for k in keys2):
            keys2.append(r[col2])
    keys2 = _stable_sort(keys2, _cmp_null_first)
    keys1 = []
    for r in rows:
        if not any(_key_equal((r[col1],), (k,)) for k in keys1):
            keys1.append(r[col1])
    keys1 = _stable_sort(keys1, _cmp_null_first)
    out_names = [f'{names[col1]}/{names[col2]}']
    out_types = [dtypes[col1]] if dtypes else None
    for k in keys2:
        for i in others:
            out_names.append(f'{k}/{names[i]}' if len(others) > 1 else f'{k}')
            if dtypes:
                out_types.append(dtypes[i])
    out = []
    for k1 in keys1:
        line = [k1]
        for k2 in keys2:
            cell = None
            for r in rows:
                if _key_equal((r[col1], r[col2]), (k1, k2)):
                    cell = r
            for i in others:
                line.append(cell[i] if cell is not None else None)
        out.append(tuple(line))
    return out_names, out_types, out
