"""Source of MANIFEST.json (run bin/mkmanifest after editing)."""

HOOKS = {
    'guard': 'BEANQUERY_VERIF',
    'enable': 'none needed: harness tables and functions are registered through the public '
              'Connection.tables / FUNCTIONS extension points; the guard name is reserved and unused',
    'baseline_off_cmd': 'cd /repo && /venv/bin/python -m pytest -ra -q -p no:cacheprovider --timeout=900 '
                        '--continue-on-collection-errors',
    'source_commits': [],
    'add_only': True,
}

ENGINES = [
    {'name': 'crosshair-z3', 'path': 'lib/verif/engine.py',
     'serves_properties': [],
     'kind_free_text': 'symbolic execution of the real Python source of /repo with CrossHair 0.0.110 '
                       '(z3 4.x/5.x wheel): harness arguments are z3 terms, every data-dependent branch is '
                       'decided by the solver, the path tree is explored to exhaustion under a CPU budget; '
                       'counterexamples are replayed natively before being reported'},
]

NOTES = ('Every check is ./bin/check <ID>; exit 0 = held on everything explored (inconclusive conditions are '
         'listed in the evidence and never counted as discharged), exit 1 + VIOLATION line = replayed '
         'counterexample, exit 2 = harness/tool error. See DESIGN.md.')

_COMMON_NOTE = ('Trusted: CrossHair\'s models of Python builtins (a confirmation relies on them; every '
                'counterexample is replayed natively), z3, CPython. Bounded: see the bounds of each condition '
                'in the evidence file; anything outside them is not claimed.')

CHECKS = {
    'C10': {
        'text': 'Bounded symbolic model checking of the real cursor.py: an inductive step over an arbitrary '
                'cursor state (any rows, any number already fetched, one arbitrary fetch operation with '
                'symbolic sizes) plus every operation sequence of length <=2 (quick) / <=3 (thorough) through the '
                'public API, and the Column sequence protocol for all indices and slices in range.',
        'design_ref': 'DESIGN.md section 5, C10',
        'note': _COMMON_NOTE + ' The inductive step assumes the cursor state is held in _rows/_pos/_rowcount '
                '(checked: a changed attribute set is reported as a harness error).',
        'technique': 'symbolic execution (CrossHair/z3) of Cursor/Column: inductive step + bounded histories',
    },
}

CHECKS['C01'] = {
    'text': 'Bounded symbolic model checking of the real evaluator: every registered operator overload class is '
            'executed with stub children returning arbitrary (symbolic) operand values or NULL and compared with an '
            'independent reference semantics written from the property (node step => trees of any depth by '
            'structural induction); the compiler\'s overload dispatch is decided for the complete operator x '
            'operand-dtype matrix on symbolic rows; the WHERE/FROM row loop on tables of <=3 symbolic rows; '
            'depth-2 expression shapes through print -> parse -> compile -> execute.',
    'design_ref': 'DESIGN.md section 5, C01',
    'note': _COMMON_NOTE + ' Decimal operands come from a palette (never symbolic); strings <=3 chars; regular '
            'expressions from a fixed list of valid patterns; dates 1900-2100; structural induction over the '
            'compiled tree is argued, not mechanised.',
    'technique': 'symbolic execution (CrossHair/z3) of EvalNode classes, compiler dispatch and execute_select '
                 'against a reference interpreter',
}

CHECKS['C03'] = {
    'text': 'Bounded symbolic model checking of ORDER BY / DISTINCT / LIMIT in execute_select: every two-row table '
            '(six symbolic cells or NULLs) under key lists of 1..3 keys in every form (position, name, hidden column, '
            'expression) with symbolic ASC/DESC bits, against a comparator-based reference; the NULL-first key '
            'contract; DISTINCT, LIMIT and their order of application on 2-4 row tables; merging of ORDER BY keys '
            'with targets for every column pair of every ledger table.',
    'design_ref': 'DESIGN.md section 5, C03',
    'note': _COMMON_NOTE + ' Any row count follows from the two-row result by the stable-sort lemma (list.sort is '
            'documented stable); 3-row tables cross-check it in the thorough tier. Hashed cells (DISTINCT) range over '
            '{NULL, 0, 1}.',
    'technique': 'symbolic execution (CrossHair/z3) of compiler + execute_select against a reference interpreter; '
                 'pairwise-sort lemma',
}

CHECKS['C02'] = {
    'text': 'Bounded symbolic model checking of aggregation: an inductive step for every aggregator class (arbitrary '
            'accumulated state, one update with a symbolic operand or NULL, finalize; initialize and store-slot '
            'isolation) and whole grouped queries (per aggregate function, WHERE/HAVING variants, every way of naming '
            'the grouping key, arithmetic over aggregates, additivity, empty selections) on 2-3 row tables with '
            'unbounded symbolic values, against a reference written from the property.',
    'design_ref': 'DESIGN.md section 5, C02',
    'note': _COMMON_NOTE + ' Grouping keys are hashed by the executor and therefore range over {NULL, 0, 1}; the '
            'aggregated values are unbounded symbolic ints (Decimals from the palette). Any row count follows from '
            'the step plus the row-loop shape checked on 2-3 rows.',
    'technique': 'symbolic execution (CrossHair/z3) of aggregator classes (inductive step) and execute_select '
                 'against a reference interpreter',
}

CHECKS['C08'] = {
    'text': 'Bounded symbolic model checking of subquery composition: for every inner-query kind (filtered, aggregated, '
            'ordered by a hidden key, DISTINCT, LIMIT n, swapped / expression outputs) and outer-query kind, nested '
            'execution over symbolic 2-3 row tables equals the outer query over the materialised inner result '
            '(description and rows), SELECT * FROM (q) equals q, histories of differently typed subqueries, depth 3; '
            'IN / NOT IN (subquery) over a second table against the reference membership semantics.',
    'design_ref': 'DESIGN.md section 5, C08',
    'note': _COMMON_NOTE + ' The FROM-subquery oracle is the real code itself run over the materialised inner result '
            '(metamorphic); its correctness on plain tables is C01-C03.',
    'technique': 'symbolic execution (CrossHair/z3) of SubqueryTable / EvalConstantSubquery1D / compiler; '
                 'metamorphic materialise-and-rerun oracle',
}

CHECKS['C09'] = {
    'text': 'Bounded symbolic model checking of parameter binding (statement templates with 1-3 positional or named '
            'placeholders in targets, WHERE, ORDER BY expressions, HAVING and subqueries; symbolic parameter values; '
            'oracle: the same parsed statement with the placeholders replaced by constants in textual order, run by '
            'the real code), of constant folding (every operator overload and a set of functions: folded constant '
            'operands vs the same values read from columns), and of history independence (statement pairs on one '
            'cursor, re-execution of the same parsed tree, executemany, against fresh connections).',
    'design_ref': 'DESIGN.md section 5, C09',
    'note': _COMMON_NOTE + ' Histories are pairs/triples of executions from a fixed statement list; parameters are '
            'symbolic ints or NULL (one identity template per literal type).',
    'technique': 'symbolic execution (CrossHair/z3) of Compiler.compile / Cursor.execute; substitute-constants and '
                 'fresh-connection oracles',
}

CHECKS['C15'] = {
    'text': 'Bounded symbolic model checking of PIVOT BY: for every permutation of the two pivot columns and 1-2 '
            'aggregate columns in the target list, by name and by position, in both pivot orders, on 2-3 row tables '
            '(keys over {0,1}, falsy and NULL keys in dedicated conditions; aggregated values unbounded symbolic), '
            'the pivoted result equals the reference pivot of the real un-pivoted result (names, datatypes, rows) and '
            'un-pivots back to it; PIVOT BY references (symbolic positions, names) are validated at compile time.',
    'design_ref': 'DESIGN.md section 5, C15',
    'note': _COMMON_NOTE + ' Pivot keys are hashed by the executor and therefore enumerated over tiny domains.',
    'technique': 'symbolic execution (CrossHair/z3) of the pivot branch of execute_query and _compile_pivot_by '
                 'against a reference pivot',
}

CHECKS['C07'] = {
    'text': 'Bounded symbolic model checking of result shape and naming: queries with 1-3 visible targets and hidden '
            'GROUP BY / HAVING / ORDER BY helpers over symbolic 2-row tables (description length and names, row length, '
            'visible cells against the reference), SELECT * on every table kind and on subqueries (including histories '
            'of differently shaped subqueries), and the naming rule (alias / lower-cased column / exact source text '
            'that parses back) over expression texts with enumerated paddings, comments, attribute, subscript and '
            'placeholder targets.',
    'design_ref': 'DESIGN.md section 5, C07',
    'note': _COMMON_NOTE + ' The naming conditions are enumeration (concrete texts chosen by selectors); the solver '
            'reasons about the row data of the shape conditions.',
    'technique': 'symbolic execution (CrossHair/z3) of compiler target handling and execute_select projection against '
                 'a reference interpreter',
}

CHECKS['C05'] = {
    'text': 'Static validation decided on enumerated statement families with the expected verdict written from the '
            'property (aggregate placement, GROUP BY coverage, name resolution, clause rules), positional references and '
            'OPEN/CLOSE dates and parameter counts as symbolic values, literal token values (every YYYY-MM-DD text of '
            'three years incl. invalid ones, oversized integers), and every token sequence of length <=2 after 16 clause '
            'prefixes: each statement is accepted, or rejected with ParseError / CompilationError carrying a valid '
            'location, and never fails with another exception.',
    'design_ref': 'DESIGN.md section 5, C05',
    'note': _COMMON_NOTE + ' The parser cannot be executed on symbolic text (TatSu regular-expression lexing), so '
            'the text conditions are exhaustive native enumeration inside the stated vocabulary; the solver reasons '
            'about positions, dates, names and counts.',
    'technique': 'symbolic execution (CrossHair/z3) of compiler validation with symbolic positions / dates / names; '
                 'bounded exhaustive enumeration of token sequences',
}

CHECKS['C04'] = {
    'text': 'Bounded symbolic model checking of type soundness: every registered function and operator overload (about '
            '240, enumerated from the live registries) is executed on conforming arguments (symbolic ints, bools, dates, '
            'intervals, short strings; palette decimals, amounts, positions, inventories, collections) and must return '
            'NULL or a value of its announced datatype without TypeError / AttributeError; every aggregate over every '
            'argument datatype; the COALESCE uniformity rule over all datatype pairs; wide aggregate queries; a renderer '
            'exists for every announced datatype. Column datatypes of the ledger tables are checked with C11.',
    'design_ref': 'DESIGN.md section 5, C04',
    'note': _COMMON_NOTE + ' Collections are compared by kind and `object` admits anything, as the property says. '
            'Value errors of a function on out-of-domain arguments (e.g. an invalid regular expression) are not type '
            'errors and are outside this property.',
    'technique': 'symbolic execution (CrossHair/z3) of every overload body and aggregator with typed stub operands',
}

CHECKS['C18'] = {
    'text': 'One law per condition over the whole stated domain: date_trunc (first day of the unit, <= d, idempotent, '
            'monotone) and date_part / year / month / day / quarter for every date 1900-2100 as symbolic (y, m, d); '
            'date_add / date_diff inverse for |k| <= 10^5; interval texts and date + interval against calendar arithmetic; '
            'substr / upper / lower / length on symbolic strings; date(y, m, d); and, enumerated natively where the solver '
            'cannot reach (float and relativedelta loops, regular expressions, weekday arithmetic): date_bin for 13 strides '
            'x 72 x 72 dates, week laws on every day of 5 years, account-name decomposition, regex / set functions, '
            'decimal numerics, and the casts on 31 inputs of every type (never an exception).',
    'design_ref': 'DESIGN.md section 5, C18',
    'note': _COMMON_NOTE + ' Conditions whose bounds say "enumerated" run the function natively on every element of the '
            'stated finite domain; the solver is not involved there.',
    'technique': 'symbolic execution (CrossHair/z3) of the scalar functions over symbolic dates, ints and strings; '
                 'bounded exhaustive enumeration elsewhere',
}

CHECKS['C11'] = {
    'text': 'Bounded symbolic model checking of the ledger tables: for ledgers of up to 3 directives built with '
            'beancount.core.data constructors from symbolic fields (dates, payee / narration strings, metadata values, flags) '
            'and enumerated palettes (accounts, units, costs, prices, tag sets, posting metadata absent / plain / keyed), '
            'every column of #postings and #entries and of each typed directive table, the accounts and commodities tables '
            'and the meta / entry_meta / any_meta / open_meta / commodity_meta / open_date / close_date lookups equal a '
            'direct traversal of the entries written from the property; row count and order for every mix of directive '
            'kinds; two ledgers attached in one process; the announced datatype of every column (shared with C04); the '
            'loader-produced fixture ledger of 26 directives natively.',
    'design_ref': 'DESIGN.md section 5, C11',
    'note': _COMMON_NOTE + ' hash_entry (id column) goes through hashlib and is compared on the concrete fixture ledger '
            'only. Amounts come from palettes (R4).',
    'technique': 'symbolic execution (CrossHair/z3) of the column accessors and table iterators against a direct '
                 'traversal oracle',
}

CHECKS['C12'] = {
    'text': 'Bounded symbolic model checking of inventory aggregation and the running balance on ledgers of 3 postings from 5 '
            'amount / lot patterns (lot reductions, two lots of one commodity, several currencies, with and without cost): for '
            'every selection (symbolic WHERE bits), account assignment and transaction split, sum(position) equals the Beancount '
            'inventory sum, per-account sums add up to the whole, units / cost / value / convert commute with sum, every balance '
            'cell is the prefix sum of the selected positions however often balance is referenced (also with a subquery scan '
            'consulting balance in between), the last balance equals sum(position), balance in WHERE sums all scanned postings, '
            'and earlier queries do not influence it.',
    'design_ref': 'DESIGN.md section 5, C12',
    'note': _COMMON_NOTE + ' Amounts are palette values (R4: Decimal arithmetic is never symbolic); the claim is over '
            'selections, groupings, splits and reference counts, not over all amounts.',
    'technique': 'symbolic execution (CrossHair/z3) of the sum aggregators, the inventory functions and the balance column '
                 'against beancount inventory arithmetic',
}

CHECKS['C13'] = {
    'text': 'Bounded symbolic model checking of OPEN / CLOSE / CLEAR: on two ledger skeletons (lots at cost with a sale; a '
            'currency conversion) with symbolic OPEN and CLOSE dates ranging over every date of a window before, inside and '
            'after the ledger, for 9 clause subsets and with a filter expression: the original postings of the period are '
            'returned unchanged and in order, every Assets / Liabilities account totals its balance as of the CLOSE date, '
            'Income / Expenses carry only the period and clear to zero, every returned transaction balances; the clauses '
            'equal open, then close, then clear; an earlier unfiltered query does not disable them; a reversed period is '
            'rejected for every statement kind. beancount.ops.summarize is executed for real under the solver.',
    'design_ref': 'DESIGN.md section 5, C13',
    'note': _COMMON_NOTE + ' Amounts and transaction dates are concrete per skeleton; the dates of the clauses are '
            'symbolic (quick tier: OPEN date over 5 representative dates when both are given; both symbolic in the thorough tier).',
    'technique': 'symbolic execution (CrossHair/z3) of compiler FROM handling, BeanTable.prepare and summarize against '
                 'balance-preservation invariants computed from the full ledger',
}

CHECKS['C14'] = {
    'text': 'BALANCES [AT f] [FROM ...] [WHERE ...] and JOURNAL [regex] [AT f] [FROM ...] are executed by the real code on '
            'ledgers whose posting selection bits are symbolic and whose amount patterns, accounts, regular expressions and '
            'FROM forms are enumerated, and compared with (i) a direct computation from the entries written from the property '
            '(per-account inventory sums ordered by account type then name; the posting register with running balance) and '
            '(ii) the SELECT expansion run by the real code. PRINT: for 10 filters over the fixture ledger (every directive '
            'kind) plus high-precision amounts, exactly the matching directives in ledger order, in syntax that the Beancount '
            'loader reads back to equal directives; the entry filter with symbolic year / month.',
    'design_ref': 'DESIGN.md section 5, C14',
    'note': _COMMON_NOTE + ' The Beancount printer and its C parser are outside the solver: PRINT losslessness is decided '
            'on the concrete ledgers only and is claimed as that.',
    'technique': 'symbolic execution (CrossHair/z3) of the BALANCES / JOURNAL expansions and execute_print filter against '
                 'direct computations; print / load round trip on concrete ledgers',
}

CHECKS['C17'] = {
    'text': 'numberify_results on result tables of 2-3 rows with a plain column (symbolic ints / NULL) and Amount, Position '
            'or Inventory columns whose cells range over palettes (NULL, zero, negative, several currencies, two lots of one '
            'commodity, a plain lot next to a lot at cost, empty and sold-out inventories), with and without a display '
            'formatter, against the per-currency units oracle written from the property: plain columns / row count / order '
            'untouched, one Decimal column per occurring currency named `name (CUR)` ordered by decreasing frequency, each '
            'cell the units summed over lots (quantised with a formatter), nothing dropped or invented; currencies unknown '
            'to the formatter are left unquantised.',
    'design_ref': 'DESIGN.md section 5, C17',
    'note': _COMMON_NOTE + ' Amount-like cells are enumerated palette values (R4); the conversion itself runs natively on '
            'them, the solver ranges over the cell selectors, NULL-ness and option bits.',
    'technique': 'solver-enumerated cell assignments (CrossHair/z3 path tree) over numberify_results with a per-currency '
                 'units oracle',
}

CHECKS['C16'] = {
    'text': 'render_text / render_csv on results whose cells are symbolic (int, bool) or enumerated from palettes (str, date, '
            'decimal incl. negative fractions and exponents, set, object, NULL) under every combination of boxed / unicode / '
            'spaced / narrow, headers shorter and longer than the cells, three NULL placeholders: all lines have equal width, '
            'columns sit at the fixed offsets given by the rule line, headers are centred (cut only in narrow mode), every '
            'cell shows its value untruncated and reads back, decimals are aligned on the decimal point; an inductive step of '
            'the DecimalRenderer two-phase protocol from an arbitrary accumulated state; CSV records field by field; amount / '
            'position / inventory columns on concrete palettes (rectangular, every currency and number shown, expansion only '
            'with expand).',
    'design_ref': 'DESIGN.md section 5, C16',
    'note': _COMMON_NOTE + ' Formatting symbolic values is the costliest thing to execute symbolically: only int and bool '
            'cells are symbolic, everything else is enumerated; number formatting of amounts is beancount\'s and is checked '
            'on concrete values only.',
    'technique': 'symbolic execution (CrossHair/z3) of the column renderers and render_text with a layout parser as oracle; '
                 'inductive step for DecimalRenderer',
}

CHECKS['C19'] = {
    'text': 'The shell in batch mode on a scratch copy of the fixture ledger, every choice enumerated through the solver\'s path '
            'tree: .set sequences over the nine settings, unknown names (incl. names of Settings methods) and 29 value '
            'spellings against a typed key-value model (exact change or error message and no change; echo); 24 input lines '
            '(dot-commands, legacy commands, unknown commands, statements of every kind and case, statements starting with a '
            'command word) never crossing between command handlers and the query executor; for 7 statements x all 2^6 setting '
            'combinations x text / csv x two placeholders the shell output equals the API result rendered with the current '
            'settings (numberify first, (empty) for empty text results); .run NAME equals typing the query with the default '
            'CLOSE date rule; the command line options -f, -m, -o, -q in every combination on a ledger with a load error.',
    'design_ref': 'DESIGN.md section 5, C19',
    'note': _COMMON_NOTE + ' Nothing here is symbolic data: the shell goes through cmd, shlex, click and the Beancount loader, '
            'which cannot run under the solver; the solver\'s contribution is the exhaustive enumeration of option and command '
            'combinations, and it is claimed as that. Interactive mode (readline, pager) is not covered.',
    'technique': 'solver-enumerated option / command combinations (CrossHair/z3 path tree) over the real shell, differential '
                 'against the API + renderers',
}

CHECKS['C20'] = {
    'text': 'Bounded model checking of interleavings with the schedule as the quantified variable: real threads run the real '
            'Cursor.execute on one shared connection or on separate connections (same / different ledgers); scheduler-controlled '
            'BQL functions registered through the public extension point make every row / sub-expression evaluation (ysync) and '
            'points inside compilation (csync, constant-folded) switch points, exactly one thread runs at a time, and the solver '
            'enumerates every schedule of the first 7 (shared) / 5 (separate) switch points, followed by a sequential or a '
            'strictly alternating tail, for 15 statement pairs (balance referenced twice per row, aggregates with a function of '
            'an aggregate, parameters, IN subqueries, FROM ... CLOSE table copies, other tables, typed tables, other_accounts, '
            'DISTINCT / ORDER BY); each thread\'s result must equal its serial result. A second family (C20.preempt) suspends one '
            'statement once at the first occurrence of every source line it executes (sys.settrace; compilation and execution; '
            'for statements that fail to parse also inside the generated parser), runs another statement to completion in a '
            'second thread and resumes: single-preemption schedules at line granularity, enumerated natively. Thorough: all '
            'pairs, a three-thread condition, second occurrences of every line.',
    'design_ref': 'DESIGN.md section 5, C20',
    'note': _COMMON_NOTE + ' Outside the bound: schedules with two or more preemptions at line granularity, preemptions between '
            'the bytecodes of one line, and switch-point schedules beyond the stated depth. The C20.preempt family is enumerated '
            'natively inside one solver path (the solver decides only connection sharing there).',
    'technique': 'solver-enumerated schedules (CrossHair/z3 path tree) driving real threads through scheduler-controlled BQL '
                 'functions; serial-equivalence oracle',
}

CHECKS['C06'] = {
    'text': 'Three kinds of obligations. (1) Direct z3 regular-language queries on the token patterns extracted from parser.py '
            'and from bql.ebnf: equal token languages in both sources, prefix-freeness that makes the ordered choice date | '
            'decimal | integer safe (with reachability witnesses), keywords are identifier words, string delimiters, comments '
            'and strings never start alike; unbounded word length. (2) Literal values through the semantic actions (symbolic '
            'integers; enumerated decimals, dates, strings with the other quote kind, booleans / NULL / keywords / identifiers '
            'in every letter-case pattern, lists). (3) Print -> parse round trips, enumerated exhaustively inside the bound: '
            'every parent operator x child kind (33) x operand position, with minimal and redundant parentheses, keyword case, '
            'separators (space, newline, block comment), trailers, as target and as WHERE; every pair of comparison operators '
            'rejected unparenthesised; arithmetic associativity and unary-minus precedence for every operator pair; statements '
            'with every clause subset x 14 FROM forms. Every text is parsed by the shipped parser and by a parser derived at '
            'run time from bql.ebnf (tatsu.compile) and both must return the printed tree (or both reject).',
    'design_ref': 'DESIGN.md section 5, C06',
    'note': _COMMON_NOTE + ' TatSu cannot be executed on symbolic text: the round-trip conditions are exhaustive enumeration '
            'inside the stated bound (depth 2 quick, depth 3 thorough), the solver reasons about the token languages and the '
            'integer literal values. "Parser = grammar" is decided differentially on the explored texts only; unbounded nesting '
            'depth is argued from the stratified grammar, not proved.',
    'technique': 'z3 regular-expression inclusion on extracted token patterns; symbolic execution of literal actions; '
                 'solver-enumerated print/parse round trips against two parsers',
}

NOT_APPLICABLE = {
    pid: 'check under construction in this session; not claimed yet'
    for pid in ['C06', 'C11', 'C12', 'C13', 'C14', 'C16', 'C17', 'C18', 'C19', 'C20']
    if pid not in CHECKS
}

for _e in ENGINES:
    _e['serves_properties'] = sorted(CHECKS)
