"""C09 - Parameters, constant folding and history independence of execution."""

import copy
import datetime
import decimal
from typing import List, Optional, Tuple

import beanquery
from beanquery import query_compile, types
from beanquery.parser import ast
from beanquery.query_compile import OPERATORS

from .. import refsem, sym
from ..h import cond, assume, cover, pick, enum_int, native
from ..printer import (sel, col, const, target, func, select as print_select, substitute_placeholders)
from ..tables import HTable, connect, parse, execute
from .c01 import same, same_rows, operand_domains, tname, _UTable

D = decimal.Decimal
COLS = [('a', int), ('b', int)]


from ..tables import parse_fresh as fresh_parse  # noqa: E402


def run_cursor(conn, stmt, params=None):
    cur = conn.cursor()
    cur.execute(stmt, params)
    return [(c.name, c.datatype) for c in cur.description], cur.fetchall()


# ---------------------------------------------------------------------------
# C09.bind

POSITIONAL = {
    'target1': ('SELECT a + %s AS r FROM #t', 1),
    'minus': ('SELECT %s - %s AS r, a FROM #t', 2),
    'less': ('SELECT a FROM #t WHERE %s < %s', 2),
    'where2': ('SELECT a FROM #t WHERE a < %s AND b > %s', 2),
    'three-clauses': ('SELECT a, %s AS p FROM #t WHERE %s < a ORDER BY a * %s', 3),
    'subquery-first': ('SELECT a, %s - a AS q FROM #t WHERE a IN (SELECT b - %s FROM #t) OR a = %s', 3),
    'order-expr': ('SELECT a, b FROM #t ORDER BY (a - %s) * (b - %s) DESC', 2),
    'target-and-from-subquery': ('SELECT a + %s AS r FROM (SELECT b AS a FROM #t WHERE b > %s) WHERE a < %s', 3),
    'target-and-from-subquery-2': ('SELECT %s - a AS r, %s AS q FROM (SELECT a - %s AS a FROM #t)', 3),
    'group-having': ('SELECT a IS NULL AS k, sum(a + %s) AS s FROM #t GROUP BY 1 HAVING count(b) > %s', 2),
    # the same source text in two clauses, bound to different values
    'same-text-target-order': ('SELECT a, a < %s FROM #t ORDER BY a < %s, b', 2),
    'same-text-target-where': ('SELECT a < %s FROM #t WHERE a < %s', 2),
    'same-text-twice-in-targets': ('SELECT a + %s, a + %s FROM #t', 2),
}
NAMED = {
    'named2': ('SELECT %(x)s - %(y)s AS r, a FROM #t', ['x', 'y']),
    'named-repeated': ('SELECT %(x)s - %(y)s + %(x)s * 2 AS r FROM #t WHERE a < %(y)s', ['x', 'y']),
    'named-subquery': ('SELECT a FROM #t WHERE a IN (SELECT b + %(y)s FROM #t WHERE b < %(x)s) AND a > %(y)s', ['x', 'y']),
}


def _bind_check(text, params, rows, reference=False):
    conn = connect(t=HTable('t', COLS, list(rows)))
    tree = fresh_parse(text)
    literal = substitute_placeholders(fresh_parse(text), params)
    if reference:
        # oracle: the reference semantics on the literal tree (the substituted tree keeps the source text of the bound
        # statement, which the compiler may look at; the reference semantics only sees the tree)
        want = refsem.Ref({'t': (COLS, list(rows))}).select(literal)
        got = run_cursor(conn, tree, params)
        return None if same_rows(got[1], want.rows) else 'rows-differ-from-the-literal-statement'
    try:
        want = run_cursor(connect(t=HTable('t', COLS, list(rows))), literal)
    except beanquery.CompilationError:
        # the literal form is ill-typed (e.g. NULL in arithmetic): the bound form must be rejected too
        try:
            run_cursor(conn, tree, params)
        except beanquery.CompilationError:
            cover('both-rejected')
            return None
        return 'bound-accepted-literal-rejected'
    got = run_cursor(conn, tree, params)
    if got[0] != want[0]:
        return 'description'
    if not same_rows(got[1], want[1]):
        return 'rows'
    return None


def make_bind(name, text, nparams, names=None):
    pp = {f'p{i}': (int if name.startswith('same-text') else Optional[int]) for i in range(nparams)}

    @cond(f'C09.bind.{name}', quick=120, thorough=480,
          bounds=f'"{text}" over a table of <=2 rows (a, b symbolic ints or NULL); parameter values symbolic ints or NULL',
          symbolic='parameter values, cells, row count', enumerated='statement template (one condition each)',
          params={'rows': List[Tuple[Optional[int], Optional[int]]], **pp}, group='C09.bind')
    def bind(rows, **kw):
        assume(len(rows) <= 2)
        values = [kw[f'p{i}'] for i in range(nparams)]
        params = dict(zip(names, values)) if names else tuple(values)
        return _bind_check(text, params, rows, reference=name.startswith('same-text')) or 'ok'


for _name, (_text, _n) in POSITIONAL.items():
    make_bind(_name, _text, _n)
for _name, (_text, _names) in NAMED.items():
    make_bind(_name, _text, len(_names), _names)


TYPED_PARAMS = {
    'int': sym.VInt(), 'bool': sym.VBool(), 'str': sym.VStr(3), 'date': sym.VDate(), 'decimal': sym.VDec(),
}


def make_bind_typed(tn, dom):
    @cond(f'C09.bind.identity.{tn}', quick=120,
          bounds=f'SELECT %s AS p, %s IS NULL AS n FROM #t with a {dom.describe()} parameter over one row',
          symbolic='the parameter', params=dom.params('v'), group='C09.bind')
    def bind_typed(**kw):
        v = dom.build('v', kw)
        conn = connect(t=HTable('t', COLS, [(1, 2)]))
        desc, rows = run_cursor(conn, fresh_parse('SELECT %s AS p, %s IS NULL AS n FROM #t'), (v, v))
        if len(rows) != 1 or not same(rows[0][0], v):
            return 'value'
        if rows[0][1] is not (v is None):
            return 'is-null-of-parameter'
        if v is not None and desc[0][1] is not dom.dtype:
            return 'datatype'
        return 'ok'


for _tn, _dom in TYPED_PARAMS.items():
    make_bind_typed(_tn, _dom)


@cond('C09.bind.count-mismatch', quick=60,
      bounds='statement with 2 positional placeholders and 0..4 parameters: accepted iff exactly 2',
      symbolic='number of parameters')
def bind_count(n: int) -> str:
    n = enum_int(n, 0, 4)
    conn = connect(t=HTable('t', COLS, [(1, 2)]))
    try:
        run_cursor(conn, fresh_parse('SELECT %s - %s AS r FROM #t'), tuple(range(n)))
        ok = True
    except beanquery.ProgrammingError:
        ok = False
    if ok != (n == 2):
        return 'parameter-count'
    return 'ok'


# ---------------------------------------------------------------------------
# C09.fold: a constant expression folds to the value it has per row

def make_fold(astcls, opcls, domains, variant):
    intypes = list(opcls.__intypes__)
    if any(t in (set, list, dict) for t in intypes):
        return
    sig = ','.join(tname(t) for t in intypes)
    prefixes = [f'a{i}' for i in range(len(intypes))]
    # constants cannot be typed NULLs (a NULL literal has its own type): NULL only for Any operands
    doms = {}
    for p, t, d in zip(prefixes, intypes, domains):
        d = copy.copy(d)
        if t is not types.Any and hasattr(d, 'nullable'):
            d.nullable = False
        if isinstance(d, sym.VChoice) and t is not types.Any:
            d.options = [o for o in d.options if o is not None]
        if isinstance(d, sym.VDec):
            d.nullable = False
        doms[p] = d
    vtag = '' if variant is None else f'.{variant}'

    heavy = datetime.date in intypes

    @cond(f'C09.fold.{astcls.__name__}[{sig}]{vtag}', quick=240 if heavy else 90, thorough=720 if heavy else 360,
          bounds=sym.describe_all(doms), symbolic='the constant operands',
          enumerated='operator overload (one condition each)', params=sym.all_params(doms), group='C09.fold')
    def fold(**kw):
        values = [doms[p].build(p, kw) for p in prefixes]
        coltypes = [(f'c{i}', d.dtype if t is types.Any else t) for i, (t, d) in enumerate(zip(intypes, domains))]
        if issubclass(astcls, ast.Between):
            folded = astcls(*[const(v) for v in values])
            perrow = astcls(*[col(n) for n, _ in coltypes])
        elif issubclass(astcls, ast.UnaryOp):
            folded, perrow = astcls(const(values[0])), astcls(col('c0'))
        else:
            folded = astcls(const(values[0]), const(values[1]))
            perrow = astcls(col('c0'), col('c1'))
        table = HTable('t', coltypes, [tuple(values)])
        try:
            d1, r1 = run_cursor(connect(t=table), sel([target(folded, 'r')], 't'))
        except beanquery.CompilationError:
            # e.g. NULL constants have their own type; nothing to compare
            assume(False)
        d2, r2 = run_cursor(connect(t=table), sel([target(perrow, 'r')], 't'))
        if not same_rows(r1, r2):
            return 'folded-value-differs'
        if r1[0][0] is not None and d1 != d2:
            return 'folded-datatype-differs'
        return 'ok'


def _all_fold():
    for astcls, overloads in OPERATORS.items():
        for opcls in overloads:
            variants = operand_domains(astcls, list(opcls.__intypes__))
            for n, domains in enumerate(variants):
                make_fold(astcls, opcls, domains, None if len(variants) == 1 else n)


_all_fold()


FOLD_FUNCS = [
    ('length', [sym.VStr(3, nullable=False)], str),
    ('upper', [sym.VStr(3, nullable=False)], str),
    ('abs', [sym.VDec(nullable=False)], D),
    ('year', [sym.VDate(nullable=False)], datetime.date),
    ('str', [sym.VInt(-1000, 1000, nullable=False)], int),
    ('int', [sym.VChoice(['12', 'x', '', '-3'], str)], str),
    ('date_add', [sym.VDate(nullable=False, maxday=28), sym.VInt(-400, 400, nullable=False)], None),
    ('substr', [sym.VChoice(['abcd', ''], str), sym.VInt(-5, 5, nullable=False), sym.VInt(-5, 5, nullable=False)], None),
    ('coalesce', [sym.VInt(), sym.VInt()], int),
]


def make_fold_func(fname, domains):
    doms = {f'a{i}': d for i, d in enumerate(domains)}

    @cond(f'C09.fold.func.{fname}', quick=120, bounds=sym.describe_all(doms),
          symbolic='the constant arguments', params=sym.all_params(doms), group='C09.fold')
    def fold_func(**kw):
        values = [doms[f'a{i}'].build(f'a{i}', kw) for i in range(len(domains))]
        if fname == 'coalesce':
            # a NULL literal has its own type: coalesce(1, NULL) is not uniform
            assume(values[0] is not None and values[1] is not None)
        coltypes = [(f'c{i}', d.dtype) for i, d in enumerate(domains)]
        table = HTable('t', coltypes, [tuple(values)])
        folded = func(fname, *[const(v) for v in values])
        perrow = func(fname, *[col(n) for n, _ in coltypes])
        d1, r1 = run_cursor(connect(t=table), sel([target(folded, 'r')], 't'))
        d2, r2 = run_cursor(connect(t=table), sel([target(perrow, 'r')], 't'))
        if not same_rows(r1, r2) or d1 != d2:
            return 'folded-function-differs'
        return 'ok'


for _f, _d, _ in FOLD_FUNCS:
    make_fold_func(_f, _d)


@cond('C09.fold.coalesce-nested', quick=180, thorough=480,
      bounds='coalesce(p / q, r / u, v / 1) and coalesce(int(s), k): operands that are themselves foldable and fold to a typed '
             'NULL (division by zero, failed cast) at any position; p, r, v in 1..2 and q, u in 0..1 enumerated, k symbolic int, '
             "s from {'12', 'x', '', '-3'}: folded from literals == evaluated per row from columns",
      symbolic='k', enumerated='p, q, r, u, v, s, form',
      params={'p': int, 'q': int, 'r': int, 'u': int, 'v': int, 'k': int, 's': int, 'form': bool}, group='C09.fold')
def fold_coalesce_nested(p, q, r, u, v, k, s, form):
    s = pick(['12', 'x', '', '-3'], s)
    if form:
        # (symbolic int / symbolic int goes through Decimal: enumerated instead, R3)
        p, r, v = enum_int(p, 1, 2), enum_int(r, 1, 2), enum_int(v, 1, 2)
        q, u = enum_int(q, 0, 1), enum_int(u, 0, 1)
        names, values, types_ = ['p', 'q', 'r', 'u', 'v'], [p, q, r, u, v], [int] * 5
        build = lambda a: func('coalesce', ast.Div(a[0], a[1]), ast.Div(a[2], a[3]), ast.Div(a[4], const(1)))   # noqa: E731
    else:
        names, values, types_ = ['s', 'k'], [s, k], [str, int]
        build = lambda a: func('coalesce', func('int', a[0]), a[1])   # noqa: E731
    table = HTable('t', list(zip(names, types_)), [tuple(values)])
    d1, r1 = run_cursor(connect(t=table), sel([target(build([const(x) for x in values]), 'r')], 't'))
    d2, r2 = run_cursor(connect(t=table), sel([target(build([col(n) for n in names]), 'r')], 't'))
    if not same_rows(r1, r2) or d1 != d2:
        return 'folded-coalesce-differs'
    return 'ok'


# ---------------------------------------------------------------------------
# C09.history

PCOLS = [('a', int), ('b', int)]
STATEMENTS = [
    ('SELECT a FROM #t WHERE a < %s', 1),
    ('SELECT %s - %s AS r FROM #t', 2),
    ('SELECT a, %s AS p FROM #t WHERE %s < a ORDER BY a * %s', 3),
    ('SELECT a FROM #t WHERE a IN (SELECT b FROM #t WHERE b != %s)', 1),
    ('SELECT b IS NULL AS k, sum(a) AS s, count(*) AS n FROM #t GROUP BY 1', 0),
    ('SELECT b FROM #u', 0),
    ('SELECT a + b AS s', 0),           # no FROM clause: the default table
    ('SELECT a FROM (SELECT b AS a FROM #u)', 0),
    ('SELECT * FROM (SELECT a AS x, b AS y FROM #t)', 0),
]
# output names that do not depend on anything but the statement (checked besides the fresh-connection result, which
# shares this process and therefore any process-wide state)
EXPECTED_NAMES = {'SELECT a FROM (SELECT b AS a FROM #u)': ['a'], 'SELECT * FROM (SELECT a AS x, b AS y FROM #t)': ['x', 'y'],
                  'SELECT b FROM #u': ['b']}


def _conn(rows, urows):
    return connect(t=HTable('t', PCOLS, list(rows)), u=HTable('u', PCOLS, list(urows)),
                   postings=_UTable('postings', PCOLS, list(rows)))


def make_history(k1, k2, reuse):
    (t1, n1), (t2, n2) = STATEMENTS[k1], STATEMENTS[k2]
    mode = 'same-tree' if reuse else 'text'

    @cond(f'C09.history.{k1}-{k2}.{mode}', quick=120, thorough=400,
          bounds=f'one cursor: "{t1}" then "{t2}" ({mode}); table of one symbolic row (ints or NULL) plus one fixed row; symbolic parameters; '
                 'each result must equal the result of a fresh connection executing only that statement',
          symbolic='parameters of both executions, cells', enumerated='statement pair and reuse mode (one condition each)',
          group='C09.history')
    def history(row: Tuple[Optional[int], Optional[int]], p0: Optional[int], p1: int, p2: int, q0: int) -> str:
        rows = [row, (3, 1)]
        q1, q2 = p0, p1
        urows = [(7, 8)]
        conn = _conn(rows, urows)
        cur = conn.cursor()
        before = list(rows)
        tree1 = fresh_parse(t1)
        plan = [(tree1, t1, (p0, p1, p2)[:n1])]
        if reuse:
            plan.append((tree1, t1, (q0, q1, q2)[:n1]))      # the same parsed statement again
            plan.append((fresh_parse(t2), t2, (q0, q1, q2)[:n2]))
        else:
            plan.append((fresh_parse(t2), t2, (q0, q1, q2)[:n2]))
            plan.append((fresh_parse(t1), t1, (q0, q1, q2)[:n1]))
        for tree, text, params in plan:
            want = None
            try:
                want = run_cursor(_conn(rows, urows), fresh_parse(text), params or None)
            except beanquery.ProgrammingError:
                pass
            try:
                cur.execute(tree, params or None)
                got = ([(c.name, c.datatype) for c in cur.description], cur.fetchall())
            except beanquery.ProgrammingError as exc:
                if want is not None:
                    return 'fails-because-of-history'
                continue
            if want is None:
                return 'accepted-because-of-history'
            if got[0] != want[0] or not same_rows(got[1], want[1]):
                return 'result-depends-on-history'
            if text in EXPECTED_NAMES and [name for name, _ in got[0]] != EXPECTED_NAMES[text]:
                return 'columns-depend-on-history'
        if list(rows) != before:
            return 'source-data-mutated'
        return 'ok'


_PAIRS_QUICK = [(0, 1), (1, 2), (2, 0), (3, 4), (4, 3), (5, 6), (7, 6), (5, 4), (6, 5), (1, 1), (2, 2), (3, 6), (7, 8), (8, 7)]
for _k1 in range(len(STATEMENTS)):
    for _k2 in range(len(STATEMENTS)):
        for _reuse in (False, True):
            if (_k1, _k2) in _PAIRS_QUICK:
                make_history(_k1, _k2, _reuse)


LEDGER_STATEMENTS = [
    ('SELECT account, sum(position) AS s GROUP BY account ORDER BY account', None),
    ('SELECT date, account FROM #postings WHERE number > %s', (0,)),
    ('SELECT date, account, position FROM OPEN ON 2019-01-10 CLOSE ON 2019-02-01 CLEAR', None),
    ('SELECT date, account, position FROM year = 2019 OPEN ON 2019-01-10 WHERE number > %s', (-5000,)),
    ('BALANCES FROM CLOSE ON 2019-02-01', None),
    ('SELECT date, type FROM #entries', None),
    ('SELECT account, balance FROM CLEAR WHERE account ~ %s', ('Assets',)),
    ('JOURNAL "Assets" FROM OPEN ON 2019-01-15', None),
    ('SELECT date, account FROM has_account("Assets:Bank") CLOSE', None),
    # one pattern text used by the case-insensitive operator and by the case-sensitive function
    ('SELECT DISTINCT account FROM #postings WHERE account ~ %s ORDER BY account', ('bank',)),
    ('SELECT DISTINCT account, grep(%s, account) AS m, subst(%s, "_", account) AS u ORDER BY account', ('bank', 'bank')),
    # a lookup that must not write into the ledger's metadata, and a reader of the same key
    ('SELECT account, any_meta(%s) AS m FROM #postings', ('note',)),
    ('SELECT account, meta(%s) AS m, entry_meta(%s) AS e FROM #postings', ('note', 'note')),
]


BOOL_CONSTANTS = [None, True, False, 0, 1]


@cond('C09.fold.bool', quick=120,
      bounds='x AND y, x OR y, NOT x, x AND y AND z, x OR y OR z with x, y, z from {NULL, TRUE, FALSE, 0, 1} given as literals (folded '
             'by the compiler, if it folds them) and as columns of a one-row table: the same cell either way',
      symbolic='(none)', enumerated='operands, form', params={'x': int, 'y': int, 'z': int, 'form': int}, group='C09.fold')
def fold_bool(x, y, z, form):
    vals = [pick(BOOL_CONSTANTS, v) for v in (x, y, z)]
    form = enum_int(form, 0, 4)

    def run():
        build = [lambda a: ast.And([a[0], a[1]]), lambda a: ast.Or([a[0], a[1]]), lambda a: ast.Not(a[0]),
                 lambda a: ast.And([a[0], a[1], a[2]]), lambda a: ast.Or([a[0], a[1], a[2]])][form]
        table = HTable('t', [('cx', object), ('cy', object), ('cz', object)], [tuple(vals)])
        r1 = run_cursor(connect(t=table), sel([target(build([const(v) for v in vals]), 'r')], 't'))
        r2 = run_cursor(connect(t=table), sel([target(build([col('cx'), col('cy'), col('cz')]), 'r')], 't'))
        return 'ok' if repr(r1[1]) == repr(r2[1]) else f'folded-boolean-differs: {r1[1]} / {r2[1]}'
    return native(run)


_FRESH = {}


def _in_fork(fn):
    """Run fn() in a forked child and return its (pickled) result."""
    import os
    import pickle
    rfd, wfd = os.pipe()
    pid = os.fork()
    if pid == 0:
        try:
            os.close(rfd)
            try:
                payload = pickle.dumps(('ok', fn()), protocol=4)
            except BaseException as exc:    # noqa
                payload = pickle.dumps(('error', repr(exc)), protocol=4)
            with os.fdopen(wfd, 'wb') as f:
                f.write(payload)
        finally:
            os._exit(0)
    os.close(wfd)
    with os.fdopen(rfd, 'rb') as f:
        data = f.read()
    os.waitpid(pid, 0)
    status, value = pickle.loads(data)
    if status != 'ok':
        raise RuntimeError('forked reference run failed: ' + value)
    return value


@cond('C09.history.ledger', quick=180,
      bounds=f'the fixture ledger (Beancount-backed tables); every ordered pair out of {len(LEDGER_STATEMENTS)} statements (no FROM '
             'clause, FROM #table, FROM expression, OPEN / CLOSE / CLEAR periods, BALANCES, JOURNAL, parameters) executed one '
             'after the other on one connection: the second result equals its result on a fresh connection',
      symbolic='(none)', enumerated='statement pair', params={'i': int, 'j': int},
      note='solver-enumerated and executed natively (table preparation runs beancount.ops.summarize on the concrete ledger)')
def history_ledger(i, j):
    i = enum_int(i, 0, len(LEDGER_STATEMENTS) - 1)
    j = enum_int(j, 0, len(LEDGER_STATEMENTS) - 1)

    def run():
        from .. import ledger
        def result(conn, k):
            text, params = LEDGER_STATEMENTS[k]
            cur = conn.execute(text, params)
            return [(c.name, c.datatype) for c in cur.description], cur.fetchall()
        # the reference results come from processes that have executed nothing else (process-wide state counts as
        # history): all of them are computed at the first call, each in its own fork of this still pristine process
        if not _FRESH:
            for k in range(len(LEDGER_STATEMENTS)):
                _FRESH[k] = _in_fork(lambda k=k: result(ledger.connect(), k))
        fresh = _FRESH[j]
        conn = ledger.connect()
        result(conn, i)
        return result(conn, j) == fresh
    return 'ok' if native(run) else 'result-depends-on-the-statement-executed-before'


@cond('C09.executemany', quick=120,
      bounds='executemany of a statement with 1..3 positional placeholders over two parameter tuples (symbolic ints or '
             'NULL), one symbolic row plus one fixed row: completes, and leaves the result of the last tuple',
      symbolic='parameters, cells', enumerated='number of placeholders (selector)')
def executemany(row: Tuple[Optional[int], Optional[int]], k: int, p0: Optional[int], p1: int,
                p2: int, q0: int) -> str:
    rows = [row, (3, 1)]
    q1, q2 = p0, p1
    text, n = pick(STATEMENTS[:3], k)
    conn = _conn(rows, [])
    cur = conn.cursor()
    try:
        cur.executemany(text, [(p0, p1, p2)[:n], (q0, q1, q2)[:n]])
    except beanquery.ProgrammingError:
        try:
            run_cursor(_conn(rows, []), fresh_parse(text), (p0, p1, p2)[:n])
            run_cursor(_conn(rows, []), fresh_parse(text), (q0, q1, q2)[:n])
        except beanquery.ProgrammingError:
            return 'ok'     # one of the bindings is itself ill-typed (NULL in arithmetic)
        return 'executemany-fails'
    want = run_cursor(_conn(rows, []), fresh_parse(text), (q0, q1, q2)[:n])
    got = ([(c.name, c.datatype) for c in cur.description], cur.fetchall())
    if got[0] != want[0] or not same_rows(got[1], want[1]):
        return 'executemany-result'
    return 'ok'


@cond('C09.bind.from-expression', quick=180,
      bounds='"SELECT a - %s AS r FROM b > %s WHERE a < %s" over the default table of <=2 rows (symbolic ints or NULL): placeholders '
             'in the targets, in the FROM expression and in WHERE bind in textual order',
      symbolic='parameter values, cells, row count',
      params={'rows': List[Tuple[Optional[int], Optional[int]]], 'p0': int, 'p1': int, 'p2': int})
def bind_from_expression(rows, p0, p1, p2):
    assume(len(rows) <= 2)
    text = 'SELECT a - %s AS r FROM b > %s WHERE a < %s'
    mk = lambda: connect(postings=_UTable('postings', COLS, list(rows)))  # noqa: E731
    literal = substitute_placeholders(fresh_parse(text), (p0, p1, p2))
    want = run_cursor(mk(), literal)
    got = run_cursor(mk(), fresh_parse(text), (p0, p1, p2))
    if got[0] != want[0] or not same_rows(got[1], want[1]):
        return 'binding-order'
    return 'ok'


EQUAL_PARAMS = [1, True, D('1.00'), D('1.0'), D('1'), 0, False, D('0.00'), D('0')]


@cond('C09.history.equal-params', quick=180,
      bounds='the same statement text executed twice on one connection (one cursor or two) with parameter values that compare '
             'equal but differ in type or precision (1, TRUE, 1.00, 1.0, 0, FALSE, 0.00): each result, with its datatypes and exact '
             'decimal representation, equals the result of a fresh connection',
      symbolic='(none)', enumerated='the two parameter values, cursor reuse', params={'i': int, 'j': int, 'reuse': bool})
def history_equal_params(i, j, reuse):
    first, second = pick(EQUAL_PARAMS, i), pick(EQUAL_PARAMS, j)
    text = 'SELECT %s AS p, str(%s) AS s, %s IS NULL AS n FROM #t'

    def run():
        conn = connect(t=HTable('t', COLS, [(1, 2)]))
        cur = conn.cursor()

        def show(c):
            return ([(d.name, d.datatype) for d in c.description], [[repr(v) for v in row] for row in c.fetchall()])
        for value in (first, second):
            c = cur if reuse else conn.cursor()
            c.execute(text, (value, value, value))
            got = show(c)
            fresh = connect(t=HTable('t', COLS, [(1, 2)])).cursor()
            fresh.execute(text, (value, value, value))
            if got != show(fresh):
                return 'result-depends-on-earlier-equal-parameters'
        return 'ok'
    return native(run)
