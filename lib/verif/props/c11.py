"""C11 - Ledger tables present the Beancount directives faithfully and completely."""

import datetime
import decimal
from typing import Optional

import beanquery
from beancount.core import amount, data, position, convert
from beancount.core.compare import hash_entry
from beancount.core.getters import get_account_open_close

from .. import sym, ledger
from ..h import cond, assume, cover, pick, enum_int, native
from ..tables import parse, execute
from .c01 import same, same_rows

D = decimal.Decimal
A = amount.Amount

UNITS = [A(D('10.00'), 'USD'), A(D('-2'), 'HOOL'), A(D('0.001'), 'EUR'), A(D('-12345.678'), 'USD')]
COSTS = [None, position.Cost(D('100.00'), 'USD', datetime.date(2019, 1, 5), None),
         position.Cost(D('2.50'), 'EUR', datetime.date(2019, 2, 1), 'lot-a')]
PRICES = [None, A(D('1.25'), 'USD')]
ACCOUNTS = ledger.ACCOUNTS
DATE = sym.VDate(2019, 2020, nullable=False, maxday=28)
NO_META = object()


def conforms(value, dtype):
    from .c04 import conforms as c
    return c(value, dtype)


_DEFAULT_INDEX = {'p0': 0, 'p1': 1, 'p2': 2}


def _sel(kw, key, options, default):
    """options[kw[key]] when the condition makes this field symbolic, else a fixed default."""
    if key in kw:
        return pick(options, kw[key])
    return options[default % len(options)]


def build_posting(p, kw):
    k = int(p[-1])
    account = _sel(kw, p + '_acc', ACCOUNTS, k)
    units = _sel(kw, p + '_units', UNITS, k)
    cost = _sel(kw, p + '_cost', COSTS, k)
    price = _sel(kw, p + '_price', PRICES, k)
    flag = _sel(kw, p + '_flag', [None, '!', '*'], k)
    mk = enum_int(kw[p + '_meta'], 0, 2) if p + '_meta' in kw else (k + 1) % 3
    line = enum_int(kw[p + '_line'], 1, 3) if p + '_line' in kw else 10 + k
    if mk == 0:
        pmeta = None                                  # padding-generated postings have no metadata
    elif mk == 1:
        pmeta = {'filename': 'f.bean', 'lineno': line}
    else:
        pmeta = {'filename': 'g.bean', 'lineno': line, 'k': kw.get(p + '_mv', 7), 'only_posting': 'p'}
    return data.Posting(account, units, cost, price, flag, pmeta)


def posting_params(p):
    return {p + '_acc': int, p + '_units': int, p + '_cost': int, p + '_price': int, p + '_flag': int, p + '_meta': int,
            p + '_line': int, p + '_mv': int}


TAGSETS = [frozenset(), frozenset({'t1'}), frozenset({'t1', 't2'})]
LINKSETS = [frozenset(), frozenset({'l1'})]


def build_txn(t, kw, nposts):
    k = int(t[-1])
    date = DATE.build(t + '_date', kw) if t + '_date_y' in kw else datetime.date(2019, 3, 1 + k)
    flag = ('!' if kw[t + '_pending'] else '*') if t + '_pending' in kw else '*!'[k % 2]
    if t + '_payee' in kw:
        payee = None if kw[t + '_nopayee'] else kw[t + '_payee']
        assume(payee is None or len(payee) <= 2)
    else:
        payee = [None, 'Shop'][k % 2]
    narration = kw.get(t + '_narr', f'narr{k}')
    if t + '_narr' in kw:
        assume(len(narration) <= 2)
    tags = _sel(kw, t + '_tags', TAGSETS, k + 1)
    links = _sel(kw, t + '_links', LINKSETS, k)
    tmeta = {'filename': 'f.bean', 'lineno': kw.get(t + '_line', 3 + k)}
    if kw.get(t + '_hasmeta', k == 0):
        tmeta['k'] = kw.get(t + '_mv', 5)
        tmeta['only_entry'] = 'e'
    postings = [build_posting(f'{t}p{i}', kw) for i in range(nposts)]
    return data.Transaction(tmeta, date, flag, payee, narration, tags, links, postings)


def txn_params(t, nposts):
    p = {**DATE.params(t + '_date'), t + '_pending': bool, t + '_nopayee': bool, t + '_payee': str, t + '_narr': str,
         t + '_tags': int, t + '_links': int, t + '_line': int, t + '_hasmeta': bool, t + '_mv': int}
    for i in range(nposts):
        p.update(posting_params(f'{t}p{i}'))
    return p


def _conn(entries, tables=('entries', 'postings')):
    """A connection with only the needed tables, built under tracing (the full attach() would sort
    and hash symbolic fields natively, realising them one value at a time)."""
    import beanquery.sources.beancount as src
    conn = beanquery.Connection()
    options = ledger.default_options()
    for cls in src.TABLES:
        if cls.name in tables:
            conn.tables[cls.name] = cls(entries, options)
    return conn


def _query(conn, text):
    desc, rows = execute(conn, parse(text))
    return desc, rows


def _compare(conn, table, columns, want_rows):
    """SELECT the columns and compare with the direct traversal; also the announced datatypes (C04)."""
    desc, rows = _query(conn, f'SELECT {", ".join(columns)} FROM #{table}')
    if len(rows) != len(want_rows):
        return 'row-count'
    for got, want in zip(rows, want_rows):
        for name, g, w in zip(columns, got, want):
            if isinstance(w, list) and isinstance(g, (list, set, frozenset)):
                if sorted(g) != sorted(w):
                    return f'column-{name}'
            elif not same(g, w) and not (g == w and type(g) is type(w)):
                return f'column-{name}'
    for c, col_values in zip(desc, zip(*rows) if rows else [()] * len(desc)):
        for v in col_values:
            if not conforms(v, c.datatype):
                return f'datatype-{c.name}'
    return None


# ---------------------------------------------------------------------------
# postings table

def posting_rows(entries):
    for entry in entries:
        if isinstance(entry, data.Transaction):
            for posting in entry.postings:
                yield entry, posting


def weight_of(p):
    """Balancing weight: at cost if held at cost, else at price if priced, else the units."""
    if p.cost is not None:
        return A(p.cost.number * p.units.number, p.cost.currency)
    if p.price is not None:
        return A(p.price.number * p.units.number, p.price.currency)
    return p.units


POSTING_GROUPS = {
    'transaction-fields': (['date', 'year', 'month', 'day', 'payee', 'narration', 'description', 'type'],
                           lambda e, p: [e.date, e.date.year, e.date.month, e.date.day, e.payee, e.narration,
                                         ' | '.join(x for x in (e.payee, e.narration) if x), 'transaction']),
    'transaction-sets': (['flag', 'tags', 'links'], lambda e, p: [e.flag, e.tags, e.links]),
    'posting-fields': (['account', 'posting_flag', 'number', 'currency', 'other_accounts'],
                       lambda e, p: [p.account, p.flag, p.units.number, p.units.currency,
                                     sorted({q.account for q in e.postings if q is not p})]),
    'cost-price': (['cost_number', 'cost_currency', 'cost_date', 'cost_label', 'position', 'price', 'weight'],
                   lambda e, p: [p.cost.number if p.cost else None, p.cost.currency if p.cost else None,
                                 p.cost.date if p.cost else None, p.cost.label if p.cost else '',
                                 position.Position(p.units, p.cost), p.price, weight_of(p)]),
    'location': (['filename', 'lineno', 'location', 'meta', 'entry'],
                 lambda e, p: [p.meta['filename'] if p.meta else None, p.meta['lineno'] if p.meta else None,
                               f"{p.meta['filename']}:{p.meta['lineno']}:" if p.meta else None, p.meta, e]),
    'metadata': (["meta('k')", "entry_meta('k')", "any_meta('k')", "any_meta('only_entry')", "any_meta('only_posting')",
                  "meta('zz')", "meta['k']", "entry.meta['k']"],
                 lambda e, p: [(p.meta or {}).get('k'), e.meta.get('k'),
                               (p.meta or {}).get('k', e.meta.get('k')) if p.meta is not None else None,
                               (p.meta or {}).get('only_entry', e.meta.get('only_entry')) if p.meta is not None else None,
                               (p.meta or {}).get('only_posting', e.meta.get('only_posting')) if p.meta is not None else None,
                               (p.meta or {}).get('zz'), (p.meta or {}).get('k'), e.meta.get('k')]),
}


GROUP_PARAMS = {
    'transaction-fields': {**DATE.params('t0_date'), 't0_nopayee': bool, 't0_payee': str, 't0_narr': str},
    'transaction-sets': {'t0_pending': bool, 't1_pending': bool, 't0_tags': int, 't1_tags': int, 't0_links': int, 't1_links': int},
    'posting-fields': {'t0p0_acc': int, 't0p1_acc': int, 't1p0_acc': int, 't0p0_units': int, 't0p1_flag': int},
    'cost-price': {'t0p0_units': int, 't0p0_cost': int, 't0p0_price': int, 't0p1_cost': int, 't1p0_price': int, 't1p0_cost': int},
    'location': {'t0p0_meta': int, 't0p1_meta': int, 't1p0_meta': int, 't0p0_line': int},
    'metadata': {'t0p0_meta': int, 't0p1_meta': int, 't1p0_meta': int, 't0p0_mv': int, 't0_hasmeta': bool, 't0_mv': int,
                 't1_hasmeta': bool},
}


def make_postings(group):
    columns, oracle = POSTING_GROUPS[group]
    params = {**GROUP_PARAMS[group], 'note_between': bool}

    @cond(f'C11.postings.{group}', quick=300, thorough=900,
          bounds='ledger: transaction with 2 postings, [a note], transaction with 1 posting; dates 2019..2020 (symbolic), payee / '
                 'narration symbolic strings <=2 chars or NULL, flags, tags, links, accounts, units / cost / price from palettes, '
                 f'posting metadata absent / plain / with keys (symbolic values); columns {columns}',
          symbolic='dates, strings, metadata values, line numbers, flags', enumerated='accounts, amounts, costs, prices, tag sets',
          params=params, group='C11.postings')
    def postings(note_between, **kw):
        t0 = build_txn('t0', kw, 2)
        t1 = build_txn('t1', kw, 1)
        entries = [t0] + ([data.Note(ledger.meta(9), t0.date, 'Assets:Bank', 'n', None, None)] if note_between else []) + [t1]
        conn = _conn(entries)
        want = [oracle(e, p) for e, p in posting_rows(entries)]
        if group == 'metadata':
            # any_meta: posting metadata first, then the transaction's; NULL for postings without metadata
            pass
        return _compare(conn, 'postings', columns, want) or 'ok'


for _g in POSTING_GROUPS:
    make_postings(_g)


@cond('C11.postings.rows', quick=180,
      bounds='ledger of 3 directives, each a transaction with 0..3 postings or a non-transaction directive (note, price, open): '
             'exactly one row per posting of every transaction, in ledger order',
      symbolic='(structure enumerated)', enumerated='directive kinds and posting counts', params={'k0': int, 'k1': int, 'k2': int})
def postings_rows(k0, k1, k2):
    entries = []
    expect = []
    for i, k in enumerate((k0, k1, k2)):
        k = enum_int(k, 0, 6)
        date = datetime.date(2019, 1, 1 + i)
        if k <= 3:
            posts = [data.Posting(ACCOUNTS[j], A(D(10 * i + j), 'USD'), None, None, None, None) for j in range(k)]
            entries.append(data.Transaction(ledger.meta(i), date, '*', None, f'n{i}', frozenset(), frozenset(), posts))
            expect += [(f'n{i}', ACCOUNTS[j], D(10 * i + j)) for j in range(k)]
        elif k == 4:
            entries.append(data.Note(ledger.meta(i), date, 'Assets:Bank', 'x', None, None))
        elif k == 5:
            entries.append(data.Price(ledger.meta(i), date, 'HOOL', A(D('1'), 'USD')))
        else:
            entries.append(data.Open(ledger.meta(i), date, 'Assets:Other', None, None))
    conn = _conn(entries, ('entries', 'postings', 'transactions'))
    _, rows = _query(conn, 'SELECT narration, account, number FROM #postings')
    if [tuple(r) for r in rows] != expect:
        return 'postings-rows'
    _, rows = _query(conn, 'SELECT type, date FROM #entries')
    if [tuple(r) for r in rows] != [(type(e).__name__.lower(), e.date) for e in entries]:
        return 'entries-rows'
    _, rows = _query(conn, 'SELECT narration FROM #transactions')
    if [r[0] for r in rows] != [e.narration for e in entries if isinstance(e, data.Transaction)]:
        return 'transactions-rows'
    return 'ok'


# ---------------------------------------------------------------------------
# entries table

@cond('C11.entries', quick=300, thorough=900,
      bounds='ledger: one symbolic transaction and one directive of each other kind (the note and the document carry tags and '
             'links of their own); entries table columns: the transaction-only columns are NULL for every other kind',
      symbolic='the transaction fields, the date of the other directive', enumerated='kind of the other directive',
      params={**DATE.params('t0_date'), 't0_nopayee': bool, 't0_payee': str, **DATE.params('od'), 'kind': int})
def entries_table(kind, **kw):
    t0 = build_txn('t0', kw, 1)
    od = DATE.build('od', kw)
    m = ledger.meta(7, color='red')
    others = [
        data.Open(m, od, 'Assets:Bank', ['USD'], None), data.Close(m, od, 'Assets:Bank'),
        data.Commodity(m, od, 'USD'), data.Pad(m, od, 'Assets:Bank', 'Equity:Opening'),
        data.Balance(m, od, 'Assets:Bank', A(D('1'), 'USD'), None, None), data.Note(m, od, 'Assets:Bank', 'c', frozenset({'nt'}), frozenset({'nl'})),
        data.Event(m, od, 'loc', 'Paris'), data.Query(m, od, 'q', 'SELECT 1'), data.Price(m, od, 'HOOL', A(D('2'), 'USD')),
        data.Document(m, od, 'Assets:Bank', '/x.pdf', frozenset({'dt'}), frozenset({'dl'})), data.Custom(m, od, 'budget', []),
    ]
    other = pick(others, kind)
    entries = [t0, other]
    conn = _conn(entries)
    # `id` hashes every field (hashlib realises them): checked on the concrete fixture ledger only
    columns = ['type', 'filename', 'lineno', 'date', 'year', 'month', 'day', 'flag', 'payee', 'narration', 'description',
               'tags', 'links', 'meta']
    want = []
    for e in entries:
        is_t = isinstance(e, data.Transaction)
        want.append([type(e).__name__.lower(), e.meta['filename'], e.meta['lineno'], e.date, e.date.year,
                     e.date.month, e.date.day, e.flag if is_t else None, e.payee if is_t else None,
                     e.narration if is_t else None,
                     ' | '.join(x for x in (e.payee, e.narration) if x) if is_t else None,
                     e.tags if is_t else None, e.links if is_t else None, e.meta])
    return _compare(conn, 'entries', columns, want) or 'ok'


# ---------------------------------------------------------------------------
# typed directive tables

def _typed_ledger(kw):
    d1, d2 = DATE.build('d1', kw), datetime.date(2019, 6, 15)
    s = kw['s']
    assume(len(s) <= 2)
    m1, m2 = ledger.meta(kw['line']), ledger.meta(2, k=kw['mv'])
    tags = frozenset({'t'})
    return [
        data.Open(m1, d1, 'Assets:Bank', ['USD'], None),
        data.Price(m1, d1, 'HOOL', A(D('100.00'), 'USD')), data.Price(m2, d2, 'EUR', A(D('1.25'), 'USD')),
        data.Balance(m1, d1, 'Assets:Bank', A(D('10'), 'USD'), D('0.01'), A(D('-1'), 'USD')),
        data.Balance(m2, d2, 'Assets:Bank', A(D('11'), 'USD'), None, None),
        data.Note(m1, d1, 'Assets:Bank', s, tags, None), data.Note(m2, d2, 'Assets:Bank', 'c2', None, frozenset({'l'})),
        data.Event(m1, d1, 'location', s), data.Event(m2, d2, s, 'Paris'),
        data.Document(m1, d1, 'Assets:Bank', '/a.pdf', tags, None), data.Document(m2, d2, 'Assets:Bank', '/' + s, None, None),
        data.Transaction(m2, d2, '*', s, 'n', frozenset(), frozenset(), []),
        data.Commodity(m1, d1, 'HOOL'), data.Commodity(m2, d2, 'USD'),
        data.Close(m2, d2, 'Assets:Bank'),
    ]


TYPED = {
    'prices': (data.Price, ['date', 'currency', 'amount', 'meta'], {}),
    'balances': (data.Balance, ['date', 'account', 'amount', 'tolerance', 'discrepancy', 'meta'], {'discrepancy': 'diff_amount'}),
    'notes': (data.Note, ['date', 'account', 'comment', 'tags', 'links', 'meta'], {}),
    'events': (data.Event, ['date', 'type', 'description', 'meta'], {}),
    'documents': (data.Document, ['date', 'account', 'filename', 'tags', 'links', 'meta'], {}),
    'transactions': (data.Transaction, ['date', 'flag', 'payee', 'narration', 'tags', 'links', 'meta'], {}),
}
TYPED_PARAMS = {**DATE.params('d1'), 's': str, 'line': int, 'mv': int}


def make_typed(table):
    cls, columns, renames = TYPED[table]

    @cond(f'C11.typed.{table}', quick=240, thorough=720,
          bounds=f'ledger with two {cls.__name__} directives among directives of every other kind; dates symbolic, one symbolic '
                 f'string <=2 chars, symbolic line number and metadata value; columns {columns}',
          symbolic='dates, string, metadata', params=TYPED_PARAMS, group='C11.typed')
    def typed(**kw):
        entries = _typed_ledger(kw)
        conn = _conn(entries, (table,))
        want = [[getattr(e, renames.get(c, c)) for c in columns] for e in entries if isinstance(e, cls)]
        return _compare(conn, table, columns, want) or 'ok'


for _t in TYPED:
    make_typed(_t)


@cond('C11.accounts-commodities', quick=240, thorough=720,
      bounds='the same ledger: accounts table = (account, open directive, close directive) per account; commodities table = '
             'the commodity directives; open.date / close.date attributes; open_date, close_date, open_meta, commodity_meta',
      symbolic='dates, string, metadata', params=TYPED_PARAMS)
def accounts_commodities(**kw):
    entries = _typed_ledger(kw)
    conn = _conn(entries, ('accounts', 'commodities', ''))
    conn.tables[''] = beanquery.tables.NullTable()
    oc = get_account_open_close(entries)
    _, rows = _query(conn, 'SELECT account, open, close, open.date, close.date FROM #accounts')
    want = [(name, o, c, o.date if o else None, c.date if c else None) for name, (o, c) in oc.items()]
    if [tuple(r) for r in rows] != want:
        return 'accounts'
    _, rows = _query(conn, 'SELECT name, date, meta FROM #commodities')
    want = [(e.currency, e.date, e.meta) for e in entries if isinstance(e, data.Commodity)]
    if sorted(rows, key=lambda r: r[0]) != sorted(want, key=lambda r: r[0]) or len(rows) != len(want):
        return 'commodities'
    _, rows = _query(conn, "SELECT open_date('Assets:Bank'), close_date('Assets:Bank'), open_date('Assets:None'), "
                           "open_meta('Assets:Bank', 'lineno'), commodity_meta('USD', 'k'), commodity_meta('HOOL', 'k'), "
                           "commodity_meta('ZZZ', 'k'), open_meta('Assets:None', 'k') FROM #")
    o, c = oc['Assets:Bank']
    com = {e.currency: e for e in entries if isinstance(e, data.Commodity)}
    want = (o.date, c.date, None, o.meta.get('lineno'), com['USD'].meta.get('k'), com['HOOL'].meta.get('k'), None, None)
    if len(rows) != 1 or tuple(rows[0]) != want:
        return 'account-commodity-functions'
    return 'ok'


@cond('C11.fixture', quick=120,
      bounds='the fixture ledger loaded by the Beancount loader (26 directives of every kind, incl. a padding transaction whose '
             'postings have no metadata): every default and named column of #postings / #entries against the loaded entries',
      symbolic='(none)', enumerated='column group (selector)', params={'g': int})
def fixture(g):
    entries, _, options = ledger.load()
    conn = ledger.connect()
    group = pick(list(POSTING_GROUPS), g)
    columns, oracle = POSTING_GROUPS[group]
    want = [oracle(e, p) for e, p in posting_rows(entries)]
    label = native(_compare, conn, 'postings', columns, want)
    if label:
        return label
    label = native(_compare, conn, 'postings', ['id'], [[hash_entry(e)] for e, p in posting_rows(entries)])
    label = label or native(_compare, conn, 'entries', ['id', 'type'], [[hash_entry(e), type(e).__name__.lower()] for e in entries])
    if label:
        return label
    if any(p.meta is None for e, p in posting_rows(entries)):
        cover('padding-posting-without-metadata')
    return 'ok'


@cond('C11.history', quick=180,
      bounds='two different ledgers attached one after the other in one process (second connection, and re-attach on the first '
             'connection): every directive table yields the directives of its own ledger',
      symbolic='one date and one string of the second ledger', enumerated='table (selector)',
      params={**DATE.params('d1'), 's': str, 'table': int})
def history(table, **kw):
    name = pick(list(TYPED) + ['postings', 'entries'], table)
    a = _typed_ledger({'d1_y': 2019, 'd1_m': 1, 'd1_d': 2, 's': 'aa', 'line': 1, 'mv': 1})
    b = _typed_ledger({**kw, 'line': 2, 'mv': 2})[:-3] + [data.Note(ledger.meta(5), datetime.date(2020, 1, 1), 'Assets:Bank', 'extra',
                                                                   None, None)]
    b = [e for e in b if not isinstance(e, data.Event)]
    conn_a = _conn(a, (name,))
    first = _query(conn_a, f'SELECT date FROM #{name}')[1]
    conn_b = _conn(b, (name,))
    second = _query(conn_b, f'SELECT date FROM #{name}')[1]
    again = _query(conn_a, f'SELECT date FROM #{name}')[1]

    def want(entries):
        if name == 'entries':
            return [(e.date,) for e in entries]
        if name == 'postings':
            return [(e.date,) for e in entries if isinstance(e, data.Transaction) for _ in e.postings]
        return [(e.date,) for e in entries if isinstance(e, TYPED[name][0])]
    if [tuple(r) for r in first] != want(a) or [tuple(r) for r in again] != want(a):
        return 'first-ledger'
    if [tuple(r) for r in second] != want(b):
        return 'second-ledger-shows-rows-of-the-first'
    return 'ok'


@cond('C11.history.periods', quick=60,
      bounds='fixture ledger, one connection: the postings / entries table read plainly, then a statement with CLEAR / CLOSE / OPEN '
             '(without the other clauses), then read plainly again: the plain reads list exactly the ledger\'s own postings / '
             'directives both times',
      symbolic='(none)', enumerated='clause, table', params={'k': int, 'ent': bool},
      note='solver-enumerated and executed natively (the summarisation runs on the concrete fixture)')
def history_periods(k, ent):
    clause = pick(['CLEAR', 'CLOSE', 'OPEN ON 2019-01-10', 'CLOSE ON 2019-02-01 CLEAR'], k)
    ent = bool(ent)

    def run():
        from beancount.core import data as bdata
        entries, _, options = ledger.load()
        conn = ledger.connect()
        if ent:
            plain = 'SELECT date, type FROM #entries'
            want = [(e.date, type(e).__name__.lower()) for e in entries]
        else:
            plain = 'SELECT date, account, position FROM #postings'
            want = [(e.date, p.account, position.Position(p.units, p.cost))
                    for e in entries if isinstance(e, bdata.Transaction) for p in e.postings]
        first = [tuple(r) for r in conn.execute(plain).fetchall()]
        if first != want:
            return 'plain-read'
        conn.execute(f'SELECT account, sum(position) AS s FROM {clause} GROUP BY account').fetchall()
        if ent:
            import io
            from beanquery import query_execute
            query_execute.execute_print(conn.compile(conn.parse(f'PRINT FROM {clause}')), io.StringIO())
        again = [tuple(r) for r in conn.execute(plain).fetchall()]
        if again != want:
            return 'plain-read-after-a-period-statement'
        return 'ok'
    return native(run)
