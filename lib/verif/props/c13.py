"""C13 - OPEN / CLOSE / CLEAR present the ledger as a period report preserving balances."""

import datetime
import decimal

import beanquery
from beancount.core import amount, convert, data, inventory, position
from beancount.core import account_types as atypes
from beancount.parser import options as bc_options
from beanquery.parser import ast

from .. import sym, ledger
from ..h import cond, assume, cover, pick, enum_int, native
from ..printer import sel, col, const, target, func
from ..tables import parse, execute

D = decimal.Decimal
A = amount.Amount

SKELETON_A = '''
option "operating_currency" "USD"
2018-01-01 open Assets:Bank
2018-01-01 open Assets:Broker
2018-01-01 open Liabilities:Card
2018-01-01 open Income:Salary
2018-01-01 open Expenses:Food
2018-01-01 open Expenses:Fees
2018-01-01 open Equity:Opening

2019-01-02 * "salary"
  Assets:Bank           1000.00 USD
  Income:Salary        -1000.00 USD

2019-01-05 * "buy"
  Assets:Broker            2 HOOL {100.00 USD, 2019-01-05}
  Assets:Bank           -200.00 USD

2019-01-10 ! "lunch"
  Expenses:Food           12.50 USD
  Liabilities:Card       -12.50 USD

2019-01-15 * "sell"
  Assets:Broker           -1 HOOL {100.00 USD, 2019-01-05} @ 120.00 USD
  Assets:Bank            119.00 USD
  Expenses:Fees            1.00 USD
  Income:Salary          -20.00 USD

2019-02-01 * "dinner"
  Expenses:Food            8.00 EUR @ 1.25 USD
  Liabilities:Card       -10.00 USD
'''

SKELETON_B = '''
option "operating_currency" "USD"
2018-01-01 open Assets:Cash
2018-01-01 open Assets:Euro
2018-01-01 open Income:Gifts
2018-01-01 open Expenses:Rent

2019-01-03 * "gift"
  Assets:Cash            500.00 USD
  Income:Gifts          -500.00 USD

2019-01-10 * "exchange"
  Assets:Euro            80.00 EUR @ 1.25 USD
  Assets:Cash           -100.00 USD

2019-01-10 * "rent"
  Expenses:Rent          300.00 USD
  Assets:Cash           -300.00 USD

2019-01-20 * "rent eur"
  Expenses:Rent           40.00 EUR
  Assets:Euro            -40.00 EUR
'''
SKELETONS = {'A': SKELETON_A, 'B': SKELETON_B}
ORIGINAL_FLAGS = ('*', '!')
WINDOW = (datetime.date(2018, 12, 20), datetime.date(2019, 2, 10))
DATE = sym.VDate(2018, 2019, nullable=False, maxday=28)


def _window_date(p, kw):
    d = DATE.build(p, kw)
    assume(WINDOW[0] <= d <= WINDOW[1])
    return d


def _conn(entries, options):
    import beanquery.sources.beancount as src
    conn = beanquery.Connection()
    for cls in src.TABLES:
        if cls.name in ('postings', 'entries'):
            conn.tables[cls.name] = cls(entries, options)
    return conn


def _root(account):
    return account.split(':')[0]


def _period_checks(rows, entries, d, e, clear):
    """rows: (date, flag, narration, account, position, weight, id) of the returned postings."""
    originals = [(t.date, t.flag, t.narration, p.account, position.Position(p.units, p.cost), convert.get_weight(p))
                 for t in entries if isinstance(t, data.Transaction) for p in t.postings]
    lo = d if d is not None else datetime.date.min
    hi = e if e is not None else datetime.date.max
    # (a) original postings: exactly those dated in [d, e), unchanged and in order
    got_orig = [r[:6] for r in rows if r[1] in ORIGINAL_FLAGS]
    want_orig = [o for o in originals if lo <= o[0] < hi]
    if got_orig != want_orig:
        return 'original-postings-of-the-period'
    # (b) balance sheet accounts: total equals the balance as of e in the full ledger
    for root in ('Assets', 'Liabilities'):
        accounts = {o[3] for o in originals if _root(o[3]) == root} | {r[3] for r in rows if _root(r[3]) == root}
        for acc in accounts:
            got = inventory.Inventory()
            for r in rows:
                if r[3] == acc:
                    got.add_position(r[4])
            want = inventory.Inventory()
            for o in originals:
                if o[3] == acc and o[0] < hi:
                    want.add_position(o[4])
            if got != want:
                return 'balance-sheet-account-total'
    # (c) income statement accounts: only the activity of the period; zero in total when cleared
    for root in ('Income', 'Expenses'):
        accounts = {o[3] for o in originals if _root(o[3]) == root}
        for acc in accounts:
            got = inventory.Inventory()
            for r in rows:
                if r[3] == acc:
                    got.add_position(r[4])
            want = inventory.Inventory()
            if not clear:
                for o in originals:
                    if o[3] == acc and lo <= o[0] < hi:
                        want.add_position(o[4])
                if d is None:
                    want = inventory.Inventory()
                    for o in originals:
                        if o[3] == acc and o[0] < hi:
                            want.add_position(o[4])
            if got != want:
                return 'income-statement-account-total'
    # (d) every returned transaction still balances
    by_txn = {}
    for r in rows:
        by_txn.setdefault(r[6], inventory.Inventory()).add_amount(r[5])
    for inv in by_txn.values():
        for pos in inv:
            if abs(pos.units.number) > D('0.005'):
                return 'returned-transaction-does-not-balance'
    return None


OPEN_DATES = [(2018, 12, 25), (2019, 1, 5), (2019, 1, 12), (2019, 2, 1), (2019, 2, 8)]


def make_period(skel, has_open, has_close, clear, expr, both_symbolic=False):
    cname = {'date': 'closeon', True: 'close', False: 'noclose'}[has_close]
    etag = {False: '', True: '-filtered', 'true': '-filtered-by-constant', 'folded': '-filtered-by-folded-constant'}[expr]
    name = f'{skel}.{"open" if has_open else "noopen"}-{cname}-{"clear" if clear else "noclear"}{etag}'
    params = {}
    enum_open = has_open and has_close == 'date' and not both_symbolic
    if enum_open:
        params['dsel'] = int
    elif has_open:
        params.update(DATE.params('d'))
    if has_close == 'date':
        params.update(DATE.params('e'))
    if not params:
        params = {'dummy': bool}

    @cond(f'C13.period{"2" if both_symbolic else ""}.{name}', quick=None if both_symbolic else 300,
          thorough=1500 if both_symbolic else 900,
          bounds=('[quick variant: the OPEN date ranges over 5 dates (before the ledger, on an entry date, between entries, on the '
                  'last entry date, after the ledger); the CLOSE date is symbolic] ' if enum_open else '') +f'ledger skeleton {skel} (5 / 4 transactions, lots at cost and a sale / a currency conversion; amounts concrete); '
                 'OPEN and CLOSE dates: every date (day <= 28) in 2018-12-20..2019-02-10, i.e. before, inside, after the ledger '
                 'and equal to entry dates; the clause subset of this condition'
                 + {False: '', True: '; a FROM filter expression that is always true (year > 2000)',
                    'true': '; the FROM filter expression TRUE', 'folded': '; the FROM filter expression 1 = 1 (folded to a constant)'}[expr],
          symbolic='the OPEN and CLOSE dates', enumerated='skeleton, clause subset, filter (one condition each)',
          params=params, group='C13.period',
          note='beancount.ops.summarize (open_opt / close_opt / clear_opt) is executed for real under the solver, not modelled')
    def period(**kw):
        entries, _, options = ledger.load(SKELETONS[skel])
        if enum_open:
            d = datetime.date(*pick(OPEN_DATES, kw['dsel']))    # built under tracing: same class as the symbolic dates
        else:
            d = _window_date('d', kw) if has_open else None
        e = _window_date('e', kw) if has_close == 'date' else None
        if d is not None and e is not None:
            assume(d <= e)
        close = e if has_close == 'date' else (True if has_close else None)
        fexpr = {False: None, True: ast.Greater(col('year'), const(2000)), 'true': const(True),
                 'folded': ast.Equal(const(1), const(1))}[expr]
        clause = ast.From(fexpr, d, close, True if clear else None)
        stmt = sel([target(col('date')), target(col('flag')), target(col('narration')), target(col('account')),
                    target(col('position')), target(col('weight')), target(col('id'))], from_clause=clause)
        conn = _conn(entries, options)
        query = conn.compile(stmt)
        _, rows = beanquery.query_execute.execute_query(query)
        label = _period_checks([tuple(r) for r in rows], entries, d, e, clear)
        if label:
            return label
        if d is not None and any(isinstance(t, data.Transaction) and t.date == d for t in entries):
            cover('open-on-entry-date')
        return 'ok'


for _skel in SKELETONS:
    for _o, _c, _clr in [(True, 'date', True), (True, 'date', False), (True, False, False), (False, 'date', False),
                         (False, 'date', True), (True, True, True), (False, False, True), (False, True, False), (True, False, True)]:
        make_period(_skel, _o, _c, _clr, False)
make_period('A', True, 'date', True, True)
make_period('B', True, 'date', False, True)
make_period('A', True, 'date', True, 'true')
make_period('B', False, 'date', True, 'folded')
make_period('B', True, True, True, 'true')
for _skel in SKELETONS:
    make_period(_skel, True, 'date', True, False, both_symbolic=True)
    make_period(_skel, True, 'date', False, False, both_symbolic=True)
make_period('A', True, 'date', True, True, both_symbolic=True)


@cond('C13.order', quick=300,
      bounds='skeletons A and B; OPEN ON d CLOSE ON e CLEAR with d from 5 dates (before the ledger, on entry dates, between entries - '
             'for skeleton B after its currency conversion -, after the ledger) and e symbolic: the returned rows (date, account, '
             'position / date, type) equal applying open, then close, then clear (beancount.ops.summarize) to the unfiltered '
             'entries, with and without a filter expression, for #postings and #entries',
      symbolic='the CLOSE date', enumerated='skeleton, OPEN date, filter, table',
      params={**DATE.params('e'), 'expr': bool, 'ent': bool, 'skb': bool, 'dsel': int})
def order(expr, ent, skb, dsel, **kw):
    from beancount.ops import summarize
    entries, _, options = ledger.load(SKELETON_B if skb else SKELETON_A)
    d, e = datetime.date(*pick(OPEN_DATES, dsel)), _window_date('e', kw)
    assume(d <= e)
    step, _ = summarize.open_opt(entries, d, options)
    step, _ = summarize.close_opt(step, e, options)
    step, _ = summarize.clear_opt(step, None, options)
    clause = ast.From(ast.Greater(col('year'), const(2000)) if expr else None, d, e, True)
    conn = _conn(entries, options)
    if ent:
        stmt = sel([target(col('date')), target(col('type'))], from_clause=clause)
        conn.tables['postings'] = conn.tables['entries']
    else:
        stmt = sel([target(col('date')), target(col('account')), target(col('position'))], from_clause=clause)
    _, rows = beanquery.query_execute.execute_query(conn.compile(stmt))
    if ent:
        want = [(x.date, type(x).__name__.lower()) for x in step]
    else:
        want = [(t.date, p.account, position.Position(p.units, p.cost))
                for t in step if isinstance(t, data.Transaction) for p in t.postings]
    if [tuple(r) for r in rows] != want:
        return 'clauses-not-applied-in-order-open-close-clear'
    return 'ok'


CLOSE_FORMS = [None, True] + OPEN_DATES


@cond('C13.print', quick=300,
      bounds='skeletons A and B; PRINT FROM [filter] [OPEN ON d] [CLOSE [ON e]] [CLEAR] for every clause subset, d and e from 5 dates '
             'each (d <= e): the printed entries are those obtained by applying open, then close, then clear to the ledger '
             '(rendered by the same beancount printer)',
      symbolic='(none)', enumerated='skeleton, OPEN presence / date, CLOSE form / date, CLEAR, filter',
      params={'skb': bool, 'i': int, 'j': int, 'clear': bool, 'expr': bool},
      note='solver-enumerated and executed natively: rendering entries under the solver is out of reach (R5)')
def print_clauses(skb, i, j, clear, expr):
    i = enum_int(i, 0, len(OPEN_DATES))
    j = enum_int(j, 0, len(CLOSE_FORMS) - 1)
    skb, clear, expr = bool(skb), bool(clear), bool(expr)

    def run():
        import io
        from beancount.core import display_context
        from beancount.ops import summarize
        from beancount.parser import printer
        entries, _, options = ledger.load(SKELETON_B if skb else SKELETON_A)
        d = datetime.date(*OPEN_DATES[i]) if i < len(OPEN_DATES) else None
        close = CLOSE_FORMS[j]
        e = datetime.date(*close) if isinstance(close, tuple) else close
        if d is not None and isinstance(e, datetime.date) and e < d:
            return None
        step = entries
        if d is not None:
            step, _ = summarize.open_opt(step, d, options)
        if e is not None:
            step, _ = summarize.close_opt(step, e if isinstance(e, datetime.date) else None, options)
        if clear:
            step, _ = summarize.clear_opt(step, None, options)
        clause = ast.From(ast.Greater(col('year'), const(2000)) if expr else None, d, e, True if clear else None)
        conn = _conn(entries, options)
        out = io.StringIO()
        beanquery.query_execute.execute_print(conn.compile(ast.Print(clause)), out)
        dcontext = display_context.DisplayContext()
        dcontext.set_commas(options['dcontext'].commas)
        want = io.StringIO()
        printer.print_entries(step, dcontext, file=want)
        return out.getvalue() == want.getvalue()
    verdict = native(run)
    assume(verdict is not None)
    return 'ok' if verdict else 'printed-entries-differ-from-open-close-clear'


@cond('C13.history', quick=300,
      bounds='skeleton A, one connection: an unfiltered statement (no FROM, FROM #postings) first, then FROM OPEN ON d CLOSE ON e '
             'CLEAR: the period query still honours its clauses, and a later unfiltered query sees the whole ledger again',
      symbolic='the OPEN date (CLOSE ON 2019-01-20)', enumerated='first statement', params={**DATE.params('d'), 'first': int})
def history(first, **kw):
    entries, _, options = ledger.load(SKELETON_A)
    d, e = _window_date('d', kw), datetime.date(2019, 1, 20)   # built under tracing
    assume(d <= e)
    conn = _conn(entries, options)
    text = pick(['SELECT count(*) AS n', 'SELECT count(*) AS n FROM #postings', 'SELECT date FROM year > 2000'], first)
    before = execute(conn, parse(text))[1]
    clause = ast.From(None, d, e, True)
    stmt = sel([target(col('date')), target(col('flag')), target(col('narration')), target(col('account')),
                target(col('position')), target(col('weight')), target(col('id'))], from_clause=clause)
    _, rows = beanquery.query_execute.execute_query(conn.compile(stmt))
    label = _period_checks([tuple(r) for r in rows], entries, d, e, True)
    if label:
        return label + '-after-unfiltered-query'
    after = execute(conn, parse(text))[1]
    if after != before:
        return 'unfiltered-query-changed-by-period-query'
    return 'ok'


@cond('C13.reject-reversed', quick=180,
      bounds='FROM [filter] OPEN ON d CLOSE ON e [CLEAR] with both dates symbolic in the window, for SELECT and PRINT: rejected at '
             'compile time (CompilationError) iff e < d, with or without a filter expression (BALANCES / JOURNAL: '
             'C13.reject-reversed.expansions)',
      symbolic='both dates, filter presence, CLEAR presence', enumerated='statement kind',
      params={**DATE.params('d'), **DATE.params('e'), 'expr': bool, 'clear': bool, 'kind': int})
def reject_reversed(expr, clear, kind, **kw):
    entries, _, options = ledger.load(SKELETON_A)
    d, e = _window_date('d', kw), _window_date('e', kw)
    clause = ast.From(ast.Greater(col('year'), const(2000)) if expr else None, d, e, True if clear else None)
    stmt = pick([lambda: sel([target(col('date'))], from_clause=clause), lambda: ast.Print(clause)], kind)()
    conn = _conn(entries, options)
    try:
        conn.compile(stmt)
        accepted = True
    except beanquery.CompilationError:
        accepted = False
    except Exception as exc:
        return 'raises-' + type(exc).__name__
    if accepted != (d <= e):
        return 'reversed-period-accepted' if accepted else 'valid-period-rejected'
    cover('rejected' if not accepted else 'accepted')
    return 'ok'


@cond('C13.reject-reversed.expansions', quick=120,
      bounds='BALANCES / JOURNAL with FROM [filter] OPEN ON d CLOSE ON e [CLEAR] for 5 x 5 concrete dates (their compilation parses '
             'a template, which cannot run under the solver): rejected iff e < d',
      symbolic='(none)', enumerated='both dates, filter, CLEAR, statement kind',
      params={'i': int, 'j': int, 'expr': bool, 'clear': bool, 'journal': bool})
def reject_reversed_expansions(i, j, expr, clear, journal):
    d = native(datetime.date, *pick(OPEN_DATES, i))
    e = native(datetime.date, *pick(OPEN_DATES, j))
    expr, clear, journal = bool(expr), bool(clear), bool(journal)

    def run():
        entries, _, options = ledger.load(SKELETON_A)
        clause = ast.From(ast.Greater(col('year'), const(2000)) if expr else None, d, e, True if clear else None)
        stmt = ast.Journal(None, None, clause) if journal else ast.Balances(None, clause, None)
        try:
            _conn(entries, options).compile(stmt)
            return True
        except beanquery.CompilationError:
            return False
    try:
        accepted = native(run)
    except Exception as exc:
        return 'raises-' + type(exc).__name__
    if accepted != (d <= e):
        return 'reversed-period-accepted' if accepted else 'valid-period-rejected'
    return 'ok'


# ---------------------------------------------------------------------------
# the shell's default CLOSE date for named queries does not outlive the named query

SHELL_LEDGER = ledger.LEDGER_TEXT + '''
2019-01-12 query "noclose" "SELECT date, account, position FROM year = 2019"
2019-01-12 query "reversed" "SELECT date, account FROM OPEN ON 2019-01-20"
2019-01-12 query "broken" "SELECT nosuchcolumn FROM year = 2019"
2019-01-12 query "garbled" "SELECT FROM WHERE"
'''
SHELL_FIRST = [None, '.run noclose', '.run reversed', '.run broken', '.run garbled', '.run *', '.run nosuchname']
SHELL_TYPED = ['SELECT date, account, position FROM year = 2019',
               'SELECT date, account, position FROM OPEN ON 2019-01-20 CLEAR',
               'SELECT date, account, position FROM OPEN ON 2019-01-05 CLOSE',
               'BALANCES FROM year = 2019',
               'SELECT date, account, position']


@cond('C13.shell.default-close', quick=180,
      bounds=f'shell session on the fixture ledger with named queries (one valid, one whose default CLOSE date precedes its OPEN date, '
             f'one that does not compile, one that does not parse): first command one of {SHELL_FIRST}, then one of '
             f'{len(SHELL_TYPED)} typed statements with a FROM clause without CLOSE date: the typed statement prints what it prints '
             'in a fresh session (the default CLOSE date of a named query applies to that query only)',
      symbolic='(none)', enumerated='first command, typed statement', params={'i': int, 'j': int},
      note='solver-enumerated and executed natively (the shell renders text)')
def shell_default_close(i, j):
    i = enum_int(i, 0, len(SHELL_FIRST) - 1)
    j = enum_int(j, 0, len(SHELL_TYPED) - 1)

    def run():
        from .c19 import Capture, ledger_file
        fresh = Capture(ledger_file(SHELL_LEDGER)).run(SHELL_TYPED[j])
        cap = Capture(ledger_file(SHELL_LEDGER))
        if SHELL_FIRST[i]:
            cap.run(SHELL_FIRST[i])
        later = cap.run(SHELL_TYPED[j])
        if fresh[3] is not None or later[3] is not None:
            return 'typed-statement-raises'
        if not fresh[0].strip():
            return 'harness-no-output'
        return 'ok' if later[:3] == fresh[:3] else 'typed-statement-sees-the-period-of-an-earlier-named-query'
    return native(run)


# ---------------------------------------------------------------------------
# the clauses as written in statement text

TEXT_FORMS = [
    ('OPEN ON 2019-01-10 CLOSE', (None, datetime.date(2019, 1, 10), True, None)),
    ('OPEN ON 2019-01-10 CLOSE CLEAR', (None, datetime.date(2019, 1, 10), True, True)),
    ('OPEN ON 2019-01-10 CLOSE ON 2019-02-01', (None, datetime.date(2019, 1, 10), datetime.date(2019, 2, 1), None)),
    ('OPEN ON 2019-01-10 CLEAR', (None, datetime.date(2019, 1, 10), None, True)),
    ('CLOSE', (None, None, True, None)),
    ('CLOSE CLEAR', (None, None, True, True)),
    ('CLOSE ON 2019-01-16', (None, None, datetime.date(2019, 1, 16), None)),
    ('CLEAR', (None, None, None, True)),
    ('year > 2000 OPEN ON 2019-01-10 CLOSE', ('y', datetime.date(2019, 1, 10), True, None)),
    ('year > 2000 OPEN ON 2019-01-10 CLOSE CLEAR', ('y', datetime.date(2019, 1, 10), True, True)),
    ('year > 2000 CLOSE', ('y', None, True, None)),
    ('year > 2000 CLEAR', ('y', None, None, True)),
]
OR_FILTERS = ["year = 2019 OR month = 1", "month = 2 OR day < 6 OR flag = '!'", "NOT (year = 2018 OR month = 2)"]


@cond('C13.text', quick=120,
      bounds=f'skeletons A and B; the {len(TEXT_FORMS)} ways of writing the clauses (bare CLOSE after OPEN, with and without a filter, ...) '
             'as statement text: the parsed FROM clause carries the clauses written, and the statement returns what the same clauses '
             f'given as a syntax tree return; and FROM f OPEN .. CLOSE .. CLEAR WHERE c for {len(OR_FILTERS)} filters f with a top-level '
             'OR / NOT equals FROM OPEN .. CLOSE .. CLEAR WHERE (f) AND c',
      symbolic='(none)', enumerated='skeleton, form', params={'skb': bool, 'k': int},
      note='solver-enumerated and executed natively (statement text goes through TatSu)')
def text_forms(skb, k):
    k = enum_int(k, 0, len(TEXT_FORMS) + len(OR_FILTERS) - 1)
    skb = bool(skb)

    def run():
        entries, _, options = ledger.load(SKELETON_B if skb else SKELETON_A)
        targets = 'date, flag, account, position'

        def rows_of(stmt):
            conn = _conn(entries, options)
            cur = conn.execute(stmt)
            return [tuple(r) for r in cur.fetchall()]
        if k < len(TEXT_FORMS):
            text, (fexpr, d, close, clear) = TEXT_FORMS[k]
            parsed = beanquery.parser.parse(f'SELECT {targets} FROM {text}')
            fc = parsed.from_clause
            if (fc.open, fc.close, fc.clear) != (d, close, clear) or (fc.expression is None) != (fexpr is None):
                return f'parsed-from-clause-differs-from-the-text: {text}'
            tree = sel([target(col('date')), target(col('flag')), target(col('account')), target(col('position'))],
                       from_clause=ast.From(ast.Greater(col('year'), const(2000)) if fexpr else None, d, close, clear))
            return 'ok' if rows_of(parsed) == rows_of(tree) else f'text-and-tree-differ: {text}'
        f = OR_FILTERS[k - len(TEXT_FORMS)]
        period = 'OPEN ON 2019-01-05 CLOSE ON 2019-02-05 CLEAR'
        c = "account ~ '^(Assets|Liabilities|Expenses)'"
        got = rows_of(f'SELECT {targets} FROM {f} {period} WHERE {c}')
        want = rows_of(f'SELECT {targets} FROM {period} WHERE ({f}) AND {c}')
        if not want:
            return 'harness-empty-reference'
        return 'ok' if got == want else f'filter-and-where-not-combined-as-a-conjunction: {f}'
    return native(run)


@cond('C13.history.clear-pair', quick=120,
      bounds='skeletons A and B, one connection: two statements with the same OPEN / CLOSE values of which exactly one has CLEAR, in either '
             'order, for 4 periods; and a statement with clauses whose WHERE holds an IN-subquery with its own FROM filter and no '
             'clauses: every result equals the result on a fresh connection / the membership computed from the subquery run alone',
      symbolic='(none)', enumerated='skeleton, period, order, form', params={'skb': bool, 'k': int, 'swap': bool, 'nested': bool},
      note='solver-enumerated and executed natively')
def history_clear_pair(skb, k, swap, nested):
    period = pick(['OPEN ON 2019-01-05 CLOSE ON 2019-02-05', 'CLOSE ON 2019-01-16', 'OPEN ON 2019-01-12', 'CLOSE'], k)
    skb, swap, nested = bool(skb), bool(swap), bool(nested)

    def run():
        entries, _, options = ledger.load(SKELETON_B if skb else SKELETON_A)
        targets = 'date, flag, account, position'

        def rows_of(conn, text):
            return [tuple(r) for r in conn.execute(text).fetchall()]
        if nested:
            outer = f"SELECT {targets} FROM {period} CLEAR WHERE account IN (SELECT account FROM year = 2019 WHERE number > 100)"
            members = {r[0] for r in rows_of(_conn(entries, options), 'SELECT account FROM year = 2019 WHERE number > 100')}
            full = rows_of(_conn(entries, options), f'SELECT {targets} FROM {period} CLEAR')
            want = [r for r in full if r[2] in members]
            got = rows_of(_conn(entries, options), outer)
            return 'ok' if got == want and want else 'subquery-inherits-the-clauses-of-the-enclosing-statement'
        plain, cleared = f'SELECT {targets} FROM {period}', f'SELECT {targets} FROM {period} CLEAR'
        first, second = (cleared, plain) if swap else (plain, cleared)
        conn = _conn(entries, options)
        rows_of(conn, first)
        if rows_of(conn, second) != rows_of(_conn(entries, options), second):
            return 'clear-depends-on-an-earlier-statement-with-the-same-period'
        return 'ok'
    return native(run)
