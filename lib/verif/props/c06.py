"""C06 - Parsing inverts printing (precedence, associativity, literals); parser = grammar."""

import ast as pyast
import datetime
import decimal
import functools
import os
import re

import tatsu
import z3

import beanquery
import beanquery.parser
from beanquery.parser import ast
from beanquery.parser import BQLSemantics

from .. import sym
from ..h import cond, assume, cover, pick, enum_int, native
from .. import printer
from ..printer import Style, col, const, func, target, sel

D = decimal.Decimal
REPO = os.environ.get('VERIF_REPO', '/repo')
EBNF = os.path.join(REPO, 'beanquery', 'parser', 'bql.ebnf')
PARSER_PY = os.path.join(REPO, 'beanquery', 'parser', 'parser.py')


# ---------------------------------------------------------------------------
# the two parsers

class ModelSemantics(BQLSemantics):
    """The model interpreter passes the full rule parameters ('Add::BinaryOp'); the generated parser the first one."""

    def _default(self, value, typename=None, *args):
        if typename is not None:
            typename = typename.split('::')[0]
        return super()._default(value, typename)


@functools.lru_cache(maxsize=1)
def grammar_model():
    with open(EBNF) as f:
        return tatsu.compile(f.read())


def parse_both(text):
    """(result of the shipped parser, result of a parser derived from bql.ebnf); a result is an AST or 'reject'."""
    try:
        shipped = beanquery.parser.parse(text)
    except beanquery.ParseError:
        shipped = 'reject'
    try:
        derived = grammar_model().parse(text, semantics=ModelSemantics())
    except tatsu.exceptions.ParseError:
        derived = 'reject'
    except beanquery.ParseError:
        derived = 'reject'
    return shipped, derived


def roundtrip(tree, text):
    shipped, derived = parse_both(text)
    if shipped == 'reject':
        return f'printed-text-rejected: {text!r}'
    if shipped != tree:
        return f'parse-differs-from-printed-tree: {text!r}'
    if derived != shipped:
        return f'shipped-parser-differs-from-grammar: {text!r}'
    return None


# ---------------------------------------------------------------------------
# C06.lexical: token languages (direct z3 queries on regular expressions taken from the sources)

def extract_parser_patterns():
    """{rule name: regex} and token literals from the generated parser.py (via the Python AST)."""
    with open(PARSER_PY) as f:
        tree = pyast.parse(f.read())
    patterns, tokens, keywords, comments = {}, set(), set(), {}
    for node in pyast.walk(tree):
        if isinstance(node, pyast.FunctionDef) and node.name.startswith('_') and node.name.endswith('_'):
            for call in pyast.walk(node):
                if isinstance(call, pyast.Call) and isinstance(call.func, pyast.Attribute) and call.args and \
                        isinstance(call.args[0], pyast.Constant):
                    if call.func.attr == '_pattern':
                        patterns[node.name.strip('_')] = call.args[0].value
                    elif call.func.attr == '_token':
                        tokens.add(call.args[0].value)
        if isinstance(node, pyast.Assign) and getattr(node.targets[0], 'id', None) == 'KEYWORDS':
            keywords = set(pyast.literal_eval(node.value))
        if isinstance(node, pyast.keyword) and node.arg in ('comments_re', 'eol_comments_re') and \
                isinstance(node.value, pyast.Constant):
            comments[node.arg] = node.value.value
    return patterns, tokens, keywords, comments


def extract_grammar_patterns():
    """The same tables from bql.ebnf (text level)."""
    with open(EBNF) as f:
        text = f.read()
    patterns = {}
    for name, body in re.findall(r'^(?:@name\n)?([a-z_]+)(?:::[A-Za-z:]+)?\n\s+=\s*(?:name:)?/(.+)/\n\s+;', text, re.M):
        patterns[name] = body
    keywords = set()
    for line in re.findall(r"@@keyword :: (.*(?:\n    '.*)*)", text):
        keywords |= set(re.findall(r"'([A-Z]+)'", line))
    comments = {}
    m = re.search(r'@@comments :: /(.*)/', text)
    if m:
        comments['comments_re'] = m.group(1)
    m = re.search(r'@@eol_comments :: /(.*)/', text)
    if m:
        comments['eol_comments_re'] = m.group(1)
    return patterns, keywords, comments


ASCII = [chr(i) for i in range(32, 127)] + ['\n', '\r', '\t']


def _chars(chars):
    chars = sorted(set(chars))
    if not chars:
        return z3.Empty(z3.ReSort(z3.StringSort()))
    parts = [z3.Re(c) for c in chars]
    return parts[0] if len(parts) == 1 else z3.Union(*parts)


def to_z3(pattern):
    """Python regular expression -> z3 regular expression over printable ASCII (+ newline, CR, tab)."""
    import re._parser as sre
    import re._constants as C

    def category(cat):
        if cat == C.CATEGORY_DIGIT:
            return [c for c in ASCII if c.isdigit()]
        if cat == C.CATEGORY_SPACE:
            return [c for c in ASCII if c.isspace()]
        if cat == C.CATEGORY_WORD:
            return [c for c in ASCII if c.isalnum() or c == '_']
        raise NotImplementedError(cat)

    def item_chars(items):
        negate = False
        chars = []
        for op, av in items:
            if op == C.NEGATE:
                negate = True
            elif op == C.LITERAL:
                chars.append(chr(av))
            elif op == C.RANGE:
                chars += [chr(i) for i in range(av[0], av[1] + 1)]
            elif op == C.CATEGORY:
                chars += category(av)
            else:
                raise NotImplementedError(op)
        if negate:
            return [c for c in ASCII if c not in chars]
        return [c for c in chars if c in ASCII]

    def conv(seq):
        parts = []
        for op, av in seq:
            if op == C.LITERAL:
                parts.append(z3.Re(chr(av)))
            elif op == C.NOT_LITERAL:
                parts.append(_chars([c for c in ASCII if c != chr(av)]))
            elif op == C.ANY:
                parts.append(_chars([c for c in ASCII if c != '\n']))
            elif op == C.IN:
                parts.append(_chars(item_chars(av)))
            elif op == C.SUBPATTERN:
                parts.append(conv(av[3]))
            elif op == C.BRANCH:
                alts = [conv(a) for a in av[1]]
                parts.append(alts[0] if len(alts) == 1 else z3.Union(*alts))
            elif op in (C.MAX_REPEAT, C.MIN_REPEAT):
                lo, hi, body = av
                inner = conv(body)
                if hi == C.MAXREPEAT:
                    parts.append(z3.Star(inner) if lo == 0 else (z3.Plus(inner) if lo == 1 else z3.Concat(
                        *([inner] * lo + [z3.Star(inner)]))))
                else:
                    parts.append(z3.Loop(inner, lo, hi))
            elif op == C.AT:
                continue        # anchors: the token patterns are matched at a position / up to end of line
            else:
                raise NotImplementedError(op)
        if not parts:
            return z3.Re('')
        return parts[0] if len(parts) == 1 else z3.Concat(*parts)
    return conv(sre.parse(pattern))


def nonempty(regex, timeout=20000):
    """A word of the language, None if it is empty, 'unknown' otherwise."""
    s = z3.String('w')
    solver = z3.Solver()
    solver.set('timeout', timeout)
    solver.add(z3.InRe(s, regex))
    r = str(solver.check())
    if r == 'sat':
        return solver.model()[s].as_string()
    return None if r == 'unsat' else 'unknown'


ANY = z3.Star(_chars(ASCII))


def _lexical_check(k):
    patterns, tokens, keywords, comments = extract_parser_patterns()
    gpatterns, gkeywords, gcomments = extract_grammar_patterns()
    z = {name: to_z3(p) for name, p in patterns.items()}
    # validate the translator on sample words (fullmatch agrees with z3 membership)
    samples = ['', '0', '12', '1.5', '.5', '5.', '2020-01-31', "'a b'", '"x"', "'unterminated", 'abc', 'a_1', '_', '1a', '#t', '#',
               '# t', 'SELECT', '12345', '1-2', '00.00', "''", '"a\'b"']
    if k == 0:
        for name, p in patterns.items():
            for w in samples:
                s = z3.Solver()
                s.add(z3.InRe(z3.StringVal(w), z[name]))
                if (str(s.check()) == 'sat') != bool(re.fullmatch(p, w)):
                    return f'translator-disagrees-with-re: {name} {w!r}'
        return 'ok'
    if k == 1:
        # the generated parser and the grammar file carry the same token languages
        for name in set(patterns) | set(gpatterns):
            if name not in patterns or name not in gpatterns:
                return f'token-rule-only-in-one-source: {name}'
            a, b = z[name], to_z3(gpatterns[name])
            w = nonempty(z3.Union(z3.Intersect(a, z3.Complement(b)), z3.Intersect(b, z3.Complement(a))))
            if w is not None:
                stmt = f'SELECT {w}'
                shipped, derived = parse_both(stmt)
                if shipped != derived:
                    return f'token-languages-differ: {name}: {w!r}'
        if keywords != gkeywords:
            text = 'SELECT ' + sorted(keywords ^ gkeywords)[0].lower()
            shipped, derived = parse_both(text)
            if shipped != derived:
                return f'keywords-differ: {sorted(keywords ^ gkeywords)}'
        for key in ('comments_re', 'eol_comments_re'):
            if comments.get(key) != gcomments.get(key):
                return f'comment-patterns-differ: {key}'
        return 'ok'
    if k == 2:
        # ordered choice date | decimal | integer never mis-lexes: a longer alternative tried later would be shadowed
        # if one of its words had a prefix in an earlier alternative
        if nonempty(z3.Intersect(z['decimal'], z3.Concat(z['date'], ANY))) is not None:
            return 'a-decimal-has-a-date-prefix'
        # the converse orders matter (reachability witnesses): a date has an integer prefix, so date must come first
        if nonempty(z3.Intersect(z['date'], z3.Concat(z['integer'], ANY))) is None:
            return 'witness-date-has-integer-prefix'
        if nonempty(z3.Intersect(z['decimal'], z3.Concat(z['integer'], ANY))) is None:
            return 'witness-decimal-has-integer-prefix'
        # ... and the grammar indeed lists them in that order
        with open(EBNF) as f:
            text = f.read()
        m = re.search(r'literal\n\s+=\n((?:\s+\| \w+\n)+)', text)
        order = re.findall(r'\| (\w+)', m.group(1)) if m else []
        if not (order.index('date') < order.index('decimal') < order.index('integer')):
            return 'literal-alternatives-order'
        return 'ok'
    if k == 3:
        # every keyword is an identifier word (so the @name check is what excludes it); digits cannot start an identifier
        for kw in sorted(keywords):
            s = z3.Solver()
            s.add(z3.InRe(z3.StringVal(kw), z['identifier']))
            if str(s.check()) != 'sat':
                return f'keyword-not-an-identifier-word: {kw}'
        if nonempty(z3.Intersect(z['identifier'], z3.Concat(_chars('0123456789'), ANY))) is not None:
            return 'identifier-may-start-with-a-digit'
        if nonempty(z3.Intersect(z['identifier'], z['integer'])) is not None:
            return 'identifier-and-integer-overlap'
        return 'ok'
    if k == 4:
        # a string token contains its delimiter exactly twice; strings and comments cannot begin at the same character
        dq = z3.Concat(z3.Re('"'), z3.Star(_chars([c for c in ASCII if c != '"'])), z3.Re('"'))
        sq = z3.Concat(z3.Re("'"), z3.Star(_chars([c for c in ASCII if c != "'"])), z3.Re("'"))
        if nonempty(z3.Intersect(z['string'], z3.Complement(z3.Union(dq, sq)))) is not None:
            return 'string-with-inner-delimiter'
        if nonempty(z3.Intersect(z3.Union(dq, sq), z3.Complement(z['string']))) is not None:
            return 'quoted-text-not-a-string'
        cm = to_z3(comments['comments_re'])
        eol = to_z3(comments['eol_comments_re'])
        for a, b, name in ((z['string'], cm, 'string/comment'), (z['string'], eol, 'string/eol-comment'), (cm, eol, 'comments')):
            first_a = [c for c in ASCII if nonempty(z3.Intersect(a, z3.Concat(z3.Re(c), ANY)), 5000) is not None]
            first_b = [c for c in ASCII if nonempty(z3.Intersect(b, z3.Concat(z3.Re(c), ANY)), 5000) is not None]
            if set(first_a) & set(first_b):
                return f'same-first-character: {name}'
        # a block comment does not contain "*/" before its end
        if nonempty(z3.Intersect(cm, z3.Concat(z3.Re('/*'), ANY, z3.Re('*/'), _chars(ASCII), ANY))) is not None:
            return 'block-comment-extends-past-its-end'
        return 'ok'
    # k == 5: operator literals that are proper prefixes of other operator literals are tried after them
    ops = [t for t in tokens if not t[0].isalnum() and t not in ('(', ')', ',', '[', ']', '.', ';', '*')]
    for a in ops:
        for b in ops:
            if a != b and b.startswith(a):
                for text, want in ((f'SELECT x {b} y', None),):
                    shipped, derived = parse_both(text.replace('%s y', '%s').replace('%( y', '%(n)s'))
                    if shipped != derived:
                        return f'prefix-operators: {a!r} / {b!r}'
    return 'ok'


@cond('C06.lexical', quick=300, thorough=600,
      bounds='token patterns and literals extracted from parser.py (Python AST) and from bql.ebnf; regular-language queries over '
             'printable ASCII + newline / CR / tab, unbounded length: translator validation against re.fullmatch, equality of the '
             'token languages of the two sources, prefix-freeness that makes the ordered choice date | decimal | integer safe '
             '(with reachability witnesses), keywords vs identifiers, string delimiters, comment / string first characters',
      symbolic='the word (z3 string) in every language query', enumerated='query group (selector)', params={'k': int},
      per_path_timeout=600, note='direct z3 regular-expression queries (InRe only), encoding regenerated from the sources on every run')
def lexical(k):
    k = enum_int(k, 0, 5)
    return native(_lexical_check, k)


# ---------------------------------------------------------------------------
# C06.values: literal token values through the semantic actions

@cond('C06.values.integer', quick=180, bounds='integer(str(n)) == n for symbolic n in 0..10^5', symbolic='n', params={'n': int})
def values_integer(n):
    assume(0 <= n <= 10 ** 5)
    if BQLSemantics().integer(str(n)) != n:
        return 'integer-value'
    return 'ok'


@cond('C06.values.literals', quick=240,
      bounds='literal spellings parsed by both parsers as a target: decimals in fixed notation (palette, 0..4 places, leading / '
             'trailing dot forms), every date of 2019-2020 with day in {1, 15, 28..31}, TRUE / FALSE / NULL in every letter case '
             'pattern, lists of 1..3 literals incl. trailing comma and repeated / equal-but-distinct members (NULL members are not expressible: the '
             'grammar gives an empty list element and a NULL literal the same meaning, both parsers drop them)',
      symbolic='(none)', enumerated='literal (selector), letter-case bits', params={'k': int, 'c0': bool, 'c1': bool, 'c2': bool,
                                                                                     'c3': bool, 'c4': bool})
def values_literals(k, c0, c1, c2, c3, c4):
    k = enum_int(k, 0, len(LITERALS) - 1)
    bits = [bool(b) for b in (c0, c1, c2, c3, c4)]
    return native(_literal_check, k, bits)


def _date_literals():
    out = []
    for y in (2019, 2020):
        for m in range(1, 13):
            for d in (1, 15, 28, 29, 30, 31):
                try:
                    out.append(datetime.date(y, m, d))
                except ValueError:
                    pass
    return out


LITERALS = ([('dec', t, D(t)) for t in ('0.0', '1.5', '.5', '5.', '12345.678', '0.001', '00.10', '100.')] +
            [('date', d.isoformat(), d) for d in _date_literals()[::7]] +
            [('word', 'TRUE', True), ('word', 'FALSE', False), ('word', 'NULL', None)] +
            [('list', '(1, 2)', [1, 2]), ('list', '(1,)', [1]), ("list", "('a', 2.5, 2020-01-01)", ['a', D('2.5'), datetime.date(2020, 1, 1)]),
             ('list', '(1, TRUE)', [1, True]), ('list', '(1, 1, 2)', [1, 1, 2]), ('list', '(2.50, 2.5)', [D('2.50'), D('2.5')]),
             ('list', "('a', 'a')", ['a', 'a']), ('list', '(0, FALSE, 0)', [0, False, 0])] +
            [('int', '0', 0), ('int', '007', 7), ('int', '12345678901234567890', 12345678901234567890)])


def _literal_check(k, bits):
    kind, text, value = LITERALS[k]
    if kind == 'word':
        text = ''.join(c.lower() if bits[i % 5] else c for i, c in enumerate(text))
    stmt = f'SELECT {text}'
    shipped, derived = parse_both(stmt)
    if shipped == 'reject':
        return f'literal-rejected: {text}'
    got = shipped.targets[0].expression
    if got != ast.Constant(value) or type(got.value) is not type(value):
        return f'literal-value: {text}'
    if kind == 'list' and [repr(x) for x in got.value] != [repr(x) for x in value]:
        return f'list-elements: {text}'
    if derived != shipped:
        return f'shipped-parser-differs-from-grammar: {text}'
    return 'ok'


STRING_BODIES = ['', 'a', 'a b', "it's", 'say "hi"', "'quoted'", '"dq"', "'", '"', "x'", '"x', ' pad ', 'é', 'tab\there', '%s', '/* c */',
                 '; c', 'SELECT']


@cond('C06.values.string', quick=120,
      bounds=f'string literals with bodies {STRING_BODIES} delimited by the quote kind they do not contain: the value is exactly the '
             'body (as target, list member, subscript key and JOURNAL account)',
      symbolic='(none)', enumerated='body, position', params={'k': int, 'pos': int})
def values_string(k, pos):
    body = pick(STRING_BODIES, k)
    pos = enum_int(pos, 0, 3)

    def run():
        quotes = [q for q in ("'", '"') if q not in body]
        for q in quotes:
            lit = q + body + q
            if pos == 0:
                text, get = f'SELECT {lit}', lambda t: t.targets[0].expression.value
            elif pos == 1:
                text, get = f'SELECT x IN ({lit}, 1)', lambda t: t.targets[0].expression.right.value[0]
            elif pos == 2:
                text, get = f'SELECT meta[{lit}]', lambda t: t.targets[0].expression.key
            else:
                text, get = f'JOURNAL {lit}', lambda t: t.account
            shipped, derived = parse_both(text)
            if shipped == 'reject':
                return f'string-rejected: {text}'
            if get(shipped) != body:
                return f'string-value: {text!r} -> {get(shipped)!r}'
            if derived != shipped:
                return f'shipped-parser-differs-from-grammar: {text}'
        return 'ok'
    return native(run)


@cond('C06.values.identifier', quick=120,
      bounds='column, function, alias and keyword spellings in every letter case pattern (5 case bits): identifiers are '
             'lower-cased, keywords recognised in any case, by both parsers',
      symbolic='(none)', enumerated='case bits, statement', params={'k': int, 'c0': bool, 'c1': bool, 'c2': bool, 'c3': bool, 'c4': bool})
def values_identifier(k, c0, c1, c2, c3, c4):
    bits = [bool(b) for b in (c0, c1, c2, c3, c4)]
    k = enum_int(k, 0, 2)

    def run():
        mix = lambda w: ''.join(c.upper() if bits[i % 5] else c.lower() for i, c in enumerate(w))  # noqa: E731
        texts = [
            f'{mix("select")} {mix("account")}, {mix("length")}({mix("payee")}) {mix("as")} {mix("len")} {mix("from")} #t '
            f'{mix("where")} {mix("x")} {mix("is")} {mix("not")} {mix("null")} {mix("order")} {mix("by")} {mix("account")} {mix("desc")}',
            f'{mix("balances")} {mix("at")} {mix("cost")} {mix("from")} {mix("year")} = 2019 {mix("close")} {mix("clear")}',
            f'{mix("select")} {mix("distinct")} a {mix("group")} {mix("by")} a {mix("having")} count(a) > 1 {mix("pivot")} {mix("by")} a, b '
            f'{mix("limit")} 3',
        ]
        plain = [
            'SELECT account, length(payee) AS len FROM #t WHERE x IS NOT NULL ORDER BY account DESC',
            'BALANCES AT cost FROM year = 2019 CLOSE CLEAR',
            'SELECT DISTINCT a GROUP BY a HAVING count(a) > 1 PIVOT BY a, b LIMIT 3',
        ]
        shipped, derived = parse_both(texts[k])
        want, _ = parse_both(plain[k])
        if shipped == 'reject' or shipped != want:
            return f'letter-case: {texts[k]}'
        if derived != shipped:
            return f'shipped-parser-differs-from-grammar: {texts[k]}'
        return 'ok'
    return native(run)


@cond('C06.eq', quick=120,
      bounds='AST nodes Column / Constant / Add / Function / Target / OrderBy built from symbolic fields with arbitrary parseinfo '
             'objects: equal iff class and fields are equal (parseinfo ignored, nothing else)',
      symbolic='field values, parseinfo values', params={'a': int, 'b': int, 'p1': int, 'p2': int, 'kind': int, 'other': bool})
def eq(a, b, p1, p2, kind, other):
    kind = enum_int(kind, 0, 4)
    assume(-3 <= a <= 3 and -3 <= b <= 3)
    mk = [lambda v, p: ast.Constant(v, parseinfo=p),
          lambda v, p: ast.Add(ast.Constant(v), ast.Column('c'), parseinfo=p),
          lambda v, p: ast.Function('f', [ast.Constant(v)], parseinfo=p),
          lambda v, p: ast.Target(ast.Constant(v), 'n', parseinfo=p),
          lambda v, p: ast.OrderBy(ast.Constant(v), ast.Ordering.ASC, parseinfo=p)][kind]
    x, y = mk(a, p1), mk(b, p2)
    if (x == y) != (a == b):
        return 'equality'
    if other and kind == 1:
        if ast.Sub(ast.Constant(a), ast.Column('c')) == x:
            return 'different-classes-equal'
    return 'ok'


# ---------------------------------------------------------------------------
# C06.tree: parent x child x position, print styles

ATOMS = [lambda: col('a'), lambda: const(1), lambda: const('s'), lambda: func('f', col('b')), lambda: const([1, 2])]


def _leaf(i=0):
    return [col('x'), col('y'), col('z')][i % 3]


BINARY = [ast.Less, ast.LessEq, ast.Greater, ast.GreaterEq, ast.Equal, ast.NotEqual, ast.In, ast.NotIn, ast.Match, ast.NotMatch,
          ast.Add, ast.Sub, ast.Mul, ast.Div, ast.Mod]
KINDS = (['or', 'and', 'not', 'isnull', 'isnotnull', 'between', 'neg', 'attribute', 'subscript', 'function', 'column', 'int',
          'string', 'decimal', 'date', 'list', 'subquery', 'placeholder'] + [c.__name__ for c in BINARY])
PRIMARY_KINDS = ('attribute', 'subscript', 'function', 'column', 'placeholder')


def build(kind, children):
    """A node of the given kind over the given child expressions (as many as it needs)."""
    c = list(children) + [_leaf(0), _leaf(1), _leaf(2)]
    if kind == 'or':
        return ast.Or([c[0], c[1]])
    if kind == 'and':
        return ast.And([c[0], c[1]])
    if kind == 'not':
        return ast.Not(c[0])
    if kind == 'isnull':
        return ast.IsNull(c[0])
    if kind == 'isnotnull':
        return ast.IsNotNull(c[0])
    if kind == 'between':
        return ast.Between(c[0], c[1], c[2])
    if kind == 'neg':
        return ast.Neg(c[0])
    if kind == 'attribute':
        return ast.Attribute(c[0], 'attr')
    if kind == 'subscript':
        return ast.Subscript(c[0], 'key')
    if kind == 'function':
        return ast.Function('f', [c[0], c[1]])
    if kind == 'column':
        return col('q')
    if kind == 'int':
        return const(42)
    if kind == 'string':
        return const('str')
    if kind == 'decimal':
        return const(D('2.50'))
    if kind == 'date':
        return const(datetime.date(2020, 2, 29))
    if kind == 'list':
        return const([1, 'x'])
    if kind == 'subquery':
        return sel([target(col('w'))], 't')
    if kind == 'placeholder':
        return ast.Placeholder('name')
    for cls in BINARY:
        if cls.__name__ == kind:
            return cls(c[0], c[1])
    raise KeyError(kind)


ARITY = {'or': 2, 'and': 2, 'not': 1, 'isnull': 1, 'isnotnull': 1, 'between': 3, 'neg': 1, 'attribute': 1, 'subscript': 1,
         'function': 2, **{c.__name__: 2 for c in BINARY}}


def expressible(parent, pos, child_kind):
    """Is the tree in the AST domain of the grammar?"""
    if parent in ('attribute', 'subscript'):
        return child_kind in PRIMARY_KINDS
    if child_kind == 'list':
        return parent in ('In', 'NotIn') and pos == 1 or parent in ('function',)
    if child_kind == 'subquery':
        return True
    if parent == 'neg' and child_kind in ('int', 'decimal'):
        return True
    return True


STYLES = [Style(False, 0, ' '), Style(True, 0, ' '), Style(False, 1, '\n'), Style(False, 0, ' /* c */ '), Style(True, 1, '\t'),
          Style(False, 2, ' '), Style(False, 0, '  ', idcase=1)]
QUICK_STYLES = 3


def _tree_text(node, style, where, trailing):
    if where:
        stmt = sel([target(col('k'))], 't', where=node)
    else:
        stmt = sel([target(node, 'v')], 't')
    text = printer.select(stmt, style)
    if trailing == 1:
        text += ';'
    elif trailing == 2:
        text += ' ; trailing comment'
    return stmt, text


def _tree_check(parent, child_kind, pos, st, where, trailing, grand=None):
    if pos >= ARITY[parent] or not expressible(parent, pos, child_kind):
        return 'skip'
    children = [_leaf(i) for i in range(3)]
    sub = [_leaf(1), _leaf(2), _leaf(0)]
    if grand is not None:
        gk, gp = grand
        if child_kind not in ARITY or gp >= ARITY[child_kind] or not expressible(child_kind, gp, gk):
            return 'skip'
        sub[gp] = build(gk, [_leaf(2), _leaf(0), _leaf(1)])
    children[pos] = build(child_kind, sub)
    if parent in ('attribute', 'subscript') and child_kind == 'placeholder':
        return 'skip'
    node = build(parent, children)
    stmt, text = _tree_text(node, STYLES[st], where, trailing)
    label = roundtrip(stmt, text)
    return label or 'ok'


def make_tree(parent):
    @cond(f'C06.tree.{parent}', quick=300, thorough=900,
          bounds=f'parent {parent} x child of each of {len(KINDS)} kinds at each operand position; printed with minimal and with '
                 'fully redundant parentheses, upper / lower / mixed keyword case, space / newline / tab / block-comment separators, '
                 'optional trailing ";" or end-of-line comment; as target and as WHERE condition: both parsers return the tree',
          symbolic='(none)', enumerated='child kind, position, print style, clause, trailer',
          params={'ck': int, 'pos': int, 'st': int, 'where': bool, 'tr': int}, group='C06.tree',
          note='exhaustive inside the bound; the solver only enumerates (TatSu cannot run on symbolic text)')
    def tree(ck, pos, st, where, tr):
        ck, pos = enum_int(ck, 0, len(KINDS) - 1), enum_int(pos, 0, ARITY[parent] - 1)
        thorough = os.environ.get('VERIF_TIER') == 'thorough'
        st = enum_int(st, 0, (len(STYLES) if thorough else QUICK_STYLES) - 1)
        tr = enum_int(tr, 0, 2 if thorough else 1)
        if st in (2, 3) and tr == 2:
            assume(False)
        if not thorough and tr and st:
            assume(False)
        where = bool(where)
        if where and not thorough and st != 0:
            assume(False)
        r = native(_tree_check, parent, KINDS[ck], pos, st, where, tr)
        if r == 'skip':
            assume(False)
        return r

    @cond(f'C06.tree3.{parent}', quick=None, thorough=2400,
          bounds=f'depth 3: parent {parent} x child kind x grandchild kind at every operand position, minimal and redundant '
                 'parentheses', symbolic='(none)', enumerated='child and grandchild kinds and positions, parenthesisation',
          params={'ck': int, 'pos': int, 'gk': int, 'gp': int, 'par': bool}, group='C06.tree')
    def tree3(ck, pos, gk, gp, par):
        ck, pos = enum_int(ck, 0, len(KINDS) - 1), enum_int(pos, 0, 2)
        gk, gp = enum_int(gk, 0, len(KINDS) - 1), enum_int(gp, 0, 2)
        r = native(_tree_check, parent, KINDS[ck], pos, 1 if par else 0, False, 0, (KINDS[gk], gp))
        if r == 'skip':
            assume(False)
        return r


for _parent in ARITY:
    make_tree(_parent)


TIGHT_OPS = [ast.Add, ast.Sub, ast.Mul, ast.Div, ast.Mod, ast.Less, ast.LessEq, ast.Greater, ast.GreaterEq, ast.Equal,
             ast.NotEqual, ast.Match, ast.NotMatch]
TIGHT_LEAVES = [lambda: const(2020), lambda: const(1), lambda: const(5), lambda: col('x'), lambda: const(D('2.5')),
                lambda: ast.Neg(const(1)), lambda: ast.Neg(col('y')), lambda: const('s'), lambda: const(datetime.date(2020, 1, 5)),
                lambda: func('f', col('x')), lambda: ast.Attribute(col('x'), 'y')]


def make_tight(o1):
    op1 = TIGHT_OPS[o1]

    @cond(f'C06.tight.{op1.__name__}', quick=240, thorough=600,
          bounds=f'(l {printer.BINOPS[op1][0]} m) OP2 r and l {printer.BINOPS[op1][0]} (m OP2 r) for OP2 each of the {len(TIGHT_OPS)} '
                 f'symbolic binary operators over {len(TIGHT_LEAVES)} leaf kinds (4-digit and 1-digit integers, decimal, column, '
                 'negated constant / column, string, date, call, attribute; operand triples drawn as (i, i+1, i+2) and (i, i, i+3) '
                 'from the leaf list), printed without any whitespace around the operators (2020-1-5, x<=-1, 2.5*-y): both '
                 'parsers return the tree',
          symbolic='(none)', enumerated='second operator, leaf offset, grouping, leaf pattern',
          params={'o2': int, 'leaf': int, 'right': bool, 'pat': bool}, group='C06.tight',
          note='exhaustive inside the bound; the solver only enumerates (TatSu cannot run on symbolic text); one-digit integers '
               'only, so that no digit run produced by the tight printing has the shape of a date literal')
    def tight(o2, leaf, right, pat):
        o2 = enum_int(o2, 0, len(TIGHT_OPS) - 1)
        leaf = enum_int(leaf, 0, len(TIGHT_LEAVES) - 1)
        right, pat = bool(right), bool(pat)

        def run():
            n = len(TIGHT_LEAVES)
            idx = (leaf, leaf, leaf + 3) if pat else (leaf, leaf + 1, leaf + 2)
            l, m, r = (TIGHT_LEAVES[i % n]() for i in idx)
            op2 = TIGHT_OPS[o2]
            node = op1(l, op2(m, r)) if right else op2(op1(l, m), r)
            stmt = sel([target(node, 'v')], 't')
            text = printer.select(stmt, Style(False, 0, ' ', tight=True))
            return roundtrip(stmt, text)
        return native(run) or 'ok'


for _o1 in range(len(TIGHT_OPS)):
    make_tight(_o1)


COMPARISONS = ['<', '<=', '>', '>=', '=', '!=', '~', '!~', 'IN', 'NOT IN']


@cond('C06.nonassociative', quick=180,
      bounds='a OP1 b OP2 c for every pair of comparison operators (incl. IS NULL / BETWEEN tails) without parentheses: rejected by '
             'both parsers; with parentheses: accepted',
      symbolic='(none)', enumerated='operator pair', params={'i': int, 'j': int})
def nonassociative(i, j):
    i, j = enum_int(i, 0, len(COMPARISONS) - 1), enum_int(j, 0, len(COMPARISONS) + 1)

    def run():
        tails = COMPARISONS + ['IS NULL', 'BETWEEN 1 AND 2']
        op1, op2 = COMPARISONS[i], tails[j]
        rhs = '' if op2 == 'IS NULL' or op2.startswith('BETWEEN') else ' c'
        text = f'SELECT a {op1} b {op2}{rhs}'
        shipped, derived = parse_both(text)
        if shipped != 'reject' or derived != 'reject':
            return f'chained-comparison-accepted: {text}'
        text = f'SELECT (a {op1} b) {op2}{rhs}'
        shipped, derived = parse_both(text)
        if shipped == 'reject' or shipped != derived:
            return f'parenthesised-comparison: {text}'
        return 'ok'
    return native(run)


@cond('C06.associativity', quick=120,
      bounds='a OP1 b OP2 c for every pair of arithmetic operators: parsed left-associatively with * / % binding tighter than + -; '
             'unary minus binds tighter than * / %',
      symbolic='(none)', enumerated='operator pair, unary minus position', params={'i': int, 'j': int, 'neg': int})
def associativity(i, j, neg):
    i, j, neg = enum_int(i, 0, 4), enum_int(j, 0, 4), enum_int(neg, 0, 3)

    def run():
        ops = [('+', ast.Add, 1), ('-', ast.Sub, 1), ('*', ast.Mul, 2), ('/', ast.Div, 2), ('%', ast.Mod, 2)]
        (s1, c1, p1), (s2, c2, p2) = ops[i], ops[j]
        a, b, c = col('a'), col('b'), col('c')
        ta, tb, tc = 'a', 'b', 'c'
        if neg == 1:
            a, ta = ast.Neg(a), '-a'
        elif neg == 2:
            b, tb = ast.Neg(b), '-b'
        elif neg == 3:
            c, tc = ast.Neg(c), '- c'
        want = c2(c1(a, b), c) if p1 >= p2 else c1(a, c2(b, c))
        text = f'SELECT {ta} {s1} {tb} {s2} {tc}'
        shipped, derived = parse_both(text)
        if shipped == 'reject' or shipped.targets[0].expression != want:
            return f'associativity-or-precedence: {text}'
        if derived != shipped:
            return f'shipped-parser-differs-from-grammar: {text}'
        return 'ok'
    return native(run)


SOFT_WORDS = ['open', 'Open', 'OPEN', 'close', 'CLOSE', 'clear', 'CLEAR', 'on', 'ON', 'at', 'AT', 'opened', 'closed', 'clearing']
SOFT_TEMPLATES = [
    'SELECT a FROM {w} = 1', 'SELECT a FROM {w}', 'SELECT a FROM {w}.year > 2014 CLOSE', 'PRINT FROM {w}', 'PRINT FROM {w} = 1 CLEAR',
    'JOURNAL FROM {w} = 1', 'BALANCES FROM {w} AND x', 'SELECT {w} FROM #t', 'SELECT a AS {w}', 'SELECT a WHERE {w}',
    'SELECT {w}(a)', 'SELECT a FROM {w}(1)', 'SELECT a FROM {w} ON 2019-01-01', 'SELECT a FROM {w} ON x', 'SELECT a FROM x {w}',
    'SELECT a FROM x OPEN ON 2019-01-01 {w}', 'SELECT a FROM {w} {w}', 'BALANCES AT {w}', 'JOURNAL {w}', 'SELECT a ORDER BY {w}',
    'SELECT a GROUP BY {w}', 'SELECT a FROM #t WHERE a = {w}', 'SELECT a FROM NOT {w}', 'SELECT a FROM {w} IS NULL',
]


@cond('C06.soft-keywords', quick=240, thorough=600,
      bounds=f'{len(SOFT_TEMPLATES)} statement templates x {len(SOFT_WORDS)} words (the FROM-clause words OPEN / CLOSE / CLEAR / ON / AT, '
             'which are not reserved, in several letter cases, and look-alike identifiers) placed where an identifier, an expression '
             'or a clause keyword may stand: the shipped parser and the grammar-derived parser return the same tree or both reject',
      symbolic='(none)', enumerated='template, word', params={'t': int, 'w': int}, group='C06.statement',
      note='exhaustive inside the bound; the solver only enumerates (TatSu cannot run on symbolic text)')
def soft_keywords(t, w):
    t, w = enum_int(t, 0, len(SOFT_TEMPLATES) - 1), enum_int(w, 0, len(SOFT_WORDS) - 1)

    def run():
        text = SOFT_TEMPLATES[t].format(w=SOFT_WORDS[w])
        shipped, derived = parse_both(text)
        if derived != shipped:
            return f'shipped-parser-differs-from-grammar: {text!r}'
        return 'ok'
    return native(run)


# ---------------------------------------------------------------------------
# statements: every clause combination and FROM form

def _from_forms():
    d1, d2 = datetime.date(2019, 1, 1), datetime.date(2020, 1, 1)
    expr = ast.Equal(col('year'), const(2019))
    return [None, ast.Table('t'), ast.Table(''), sel([target(col('a'))], 't'), ast.From(expr, None, None, None),
            ast.From(expr, d1, None, None), ast.From(expr, d1, d2, True), ast.From(expr, None, True, None),
            ast.From(None, d1, None, None), ast.From(None, d1, True, True), ast.From(None, None, d2, None),
            ast.From(None, None, True, True), ast.From(None, None, None, True), ast.From(expr, None, d2, True)]


def _statement_check(bits, frm, st, kind):
    forms = _from_forms()
    fc = forms[frm % len(forms)]
    style = STYLES[st]
    if kind == 0:
        where = ast.Greater(col('a'), const(0)) if bits[0] else None
        group = ast.GroupBy([col('a'), 2], ast.Greater(func('count', ast.Asterisk()), const(1)) if bits[6] else None) if bits[1] else None
        order = [ast.OrderBy(col('a'), ast.Ordering.DESC), ast.OrderBy(2, ast.Ordering.ASC)] if bits[2] else None
        pivot = ast.PivotBy([col('a'), 2]) if bits[3] else None
        limit = 10 if bits[4] else None
        distinct = True if bits[5] else None
        targets = ast.Asterisk() if bits[7] else [target(col('a')), target(func('sum', col('b')), 'total')]
        stmt = sel(targets, where=where, group_by=group, order_by=order, pivot_by=pivot, limit=limit, distinct=distinct, from_clause=fc)
    elif kind == 1:
        if isinstance(fc, (ast.Table, ast.Select)):
            return 'skip'
        stmt = ast.Balances('units' if bits[0] else None, fc, ast.Greater(col('a'), const(0)) if bits[1] else None)
    elif kind == 2:
        if isinstance(fc, (ast.Table, ast.Select)):
            return 'skip'
        stmt = ast.Journal('Assets:Bank' if bits[0] else None, 'cost' if bits[1] else None, fc)
    else:
        if isinstance(fc, (ast.Table, ast.Select)):
            return 'skip'
        stmt = ast.Print(fc)
    text = printer.statement(stmt, style)
    return roundtrip(stmt, text) or 'ok'


def make_statement(kind, name):
    @cond(f'C06.statement.{name}', quick=300, thorough=900,
          bounds=f'{name} statements with every clause subset (8 bits) x 14 FROM forms (table, default table, subquery, expression, '
                 'OPEN / CLOSE [ON] / CLEAR combinations) x print styles: both parsers return the printed tree',
          symbolic='(none)', enumerated='clause bits, FROM form, style',
          params={**{f'b{i}': bool for i in range(8 if kind == 0 else 2)}, 'frm': int, 'st': int}, group='C06.statement',
          note='quick tier: 5 free clause bits for SELECT (DISTINCT, HAVING, * derived); all 8 in the thorough tier')
    def statement(frm, st, **kw):
        if kind == 0 and os.environ.get('VERIF_TIER') != 'thorough':
            # quick tier: 5 free clause bits; DISTINCT, HAVING and * follow them
            bits = [bool(kw[f'b{i}']) for i in range(5)] + [False] * 3
            bits[5], bits[6], bits[7] = bits[0] != bits[1], bits[1] and bits[2], bits[3] and not bits[1]
        else:
            bits = [bool(kw.get(f'b{i}', False)) for i in range(8)]
        frm = enum_int(frm, 0, 13)
        st = enum_int(st, 0, 1) if (kind != 0 or os.environ.get('VERIF_TIER') == 'thorough') else 0
        r = native(_statement_check, bits, frm, st, kind)
        if r == 'skip':
            assume(False)
        return r


for _kind, _name in enumerate(['select', 'balances', 'journal', 'print']):
    make_statement(_kind, _name)
