"""C16 - Text and CSV rendering are aligned, complete and faithful to the values."""

import csv
import datetime
import decimal
import io
import re
from typing import Optional

import beanquery
from beancount.core import amount, display_context, inventory, position
from beanquery import query_render
from beanquery.cursor import Column

from .. import sym
from ..h import cond, assume, cover, pick, enum_int, native

D = decimal.Decimal
A = amount.Amount


def _dcontext():
    dc = display_context.DisplayContext()
    dc.update(D('1.00'), 'USD')
    dc.update(D('1'), 'JPY')
    dc.update(D('1.000'), 'HOOL')
    return dc


DCONTEXT = _dcontext()
NULLS = ['', 'NULL', '-']
HEADERS = ['x', 'a long header name', 'name']
LISTSEP = '  '


def render(columns, rows, **opts):
    out = io.StringIO()
    query_render.render_text(columns, rows, DCONTEXT, out, **opts)
    return out.getvalue()


def expected_cell(value, dtype, nullvalue):
    """The text a cell must show (padding aside)."""
    if value is None:
        return nullvalue
    if dtype is bool:
        return 'TRUE' if value else 'FALSE'
    if dtype is datetime.date:
        return value.isoformat()
    if dtype is set:
        return LISTSEP.join(sorted(value))
    return str(value)


def layout(text, ncols, boxed, unicode_):
    """Split the rendered text into (header cells, row cells, widths) by the fixed column offsets; or a failure label."""
    lines = text.split('\n')
    if lines[-1] != '':
        return 'no-trailing-newline'
    lines = lines[:-1]
    if len({len(ln) for ln in lines}) > 1:
        return 'lines-of-different-width'
    if boxed:
        if len(lines) < 4:
            return 'missing-lines'
        header, rule, body = lines[1], lines[2], lines[3:-1]
        seps = (' │ ', '│ ', ' │') if unicode_ else (' | ', '| ', ' |')
        rule_inner = rule[2:-2]
        widths = [len(seg) for seg in rule_inner.split('─┼─' if unicode_ else '-+-')]
    else:
        if len(lines) < 2:
            return 'missing-lines'
        header, rule, body = lines[0], lines[1], lines[2:]
        seps = ('  ', '', '')
        widths = [len(seg) for seg in rule.split('  ')]
    if len(widths) != ncols:
        return 'rule-does-not-show-the-columns'

    def cut(line):
        pos = len(seps[1])
        cells = []
        for i, w in enumerate(widths):
            cells.append(line[pos:pos + w])
            pos += w
            if i < len(widths) - 1:
                if line[pos:pos + len(seps[0])] != seps[0]:
                    return None
                pos += len(seps[0])
        if line[pos:] != seps[2]:
            return None
        return cells
    hcells = cut(header)
    rcells = [cut(ln) for ln in body]
    if hcells is None or any(c is None for c in rcells):
        return 'columns-not-at-fixed-offsets'
    return hcells, rcells, widths


def check_text(columns, rows, text, boxed, unicode_, spaced, narrow, nullvalue):
    got = layout(text, len(columns), boxed, unicode_)
    if isinstance(got, str):
        return got
    hcells, rcells, widths = got
    for name, cell, w in zip([c.name for c in columns], hcells, widths):
        if len(name) <= w:
            if cell != name.center(w):
                return 'header-not-centred'
        elif narrow:
            if cell != name[:w]:
                return 'header-cut'
        else:
            return 'column-narrower-than-header-without-narrow'
    if spaced:
        data_lines = rcells[0::2]
        if any(any(c.strip() for c in line) for line in rcells[1::2]) or len(rcells) != 2 * len(rows):
            return 'spacing-lines'
    else:
        data_lines = rcells
    if len(data_lines) != len(rows):
        return 'row-count'
    for row, cells in zip(rows, data_lines):
        for value, col, cell in zip(row, columns, cells):
            want = expected_cell(value, col.datatype, nullvalue)
            if col.datatype is D and value is not None:
                try:
                    if D(cell.strip()) != value:
                        return 'decimal-does-not-read-back'
                except decimal.InvalidOperation:
                    return 'decimal-does-not-read-back'
                continue
            if cell.strip() != want.strip() and cell != want:
                return 'cell-does-not-show-the-value'
            if len(want) > len(cell):
                return 'value-truncated'
            if col.datatype is int and value is not None and not cell.endswith(want):
                return 'int-not-right-aligned'
    # decimals aligned on the decimal point
    for j, col in enumerate(columns):
        if col.datatype is D:
            points = set()
            for row, cells in zip(rows, data_lines):
                if row[j] is not None:
                    cell = cells[j]
                    mantissa = cell.rstrip()
                    points.add(cell.index('.') if '.' in mantissa else len(mantissa))
            exps = [row[j].as_tuple().exponent for row in rows if row[j] is not None]
            if len(points) > 1 and all(e <= 0 for e in exps):
                return 'decimal-points-not-aligned'
    return None


OPT_PARAMS = {'boxed': bool, 'uni': bool, 'spaced': bool, 'narrow': bool, 'nv': int, 'hd': int}


def _opts(kw):
    return dict(boxed=bool(kw['boxed']), unicode=bool(kw['uni']), spaced=bool(kw['spaced']), narrow=bool(kw['narrow']),
                nullvalue=pick(NULLS, kw['nv']))


def make_col(tn, dtype, dom, nrows, quick, thorough, reduced_opts=False):
    doms = {f'v{i}': dom for i in range(nrows)}
    symbolic_cells = dom.kind != 'enumerated'

    @cond(f'C16.col.{tn}.{nrows}rows', quick=quick, thorough=thorough,
          bounds=f'one {tn} column of {nrows} row(s): {dom.describe()}; '
                 + (f'header {HEADERS[0]!r}, nullvalue {NULLS[0]!r}, every combination of boxed / narrow' if reduced_opts else
                    f'header from {HEADERS}; nullvalue from {NULLS}; every combination of boxed / unicode / spaced / narrow'),
          symbolic='cells (where the domain is symbolic), option bits', enumerated='header, nullvalue, palette cells',
          params={**sym.all_params(doms), **OPT_PARAMS}, group='C16.col')
    def col(**kw):
        values = [doms[f'v{i}'].build(f'v{i}', kw) for i in range(nrows)]
        if reduced_opts:
            # larger instance: only boxed / narrow vary (the other options are covered by the smaller instances)
            kw = dict(kw, nv=0, hd=0, uni=False, spaced=False)
        columns = [Column(pick(HEADERS, kw['hd']), dtype)]
        rows = [(v,) for v in values]
        if not reduced_opts:
            kw = dict(kw, nv=enum_int(kw['nv'], 0, 1), hd=enum_int(kw['hd'], 0, 1))
        if symbolic_cells:
            # formatting symbolic values is expensive: unicode / spaced are exercised by the enumerated conditions
            kw = dict(kw, uni=False, spaced=False)
        opts = _opts(kw)
        if dom.kind == 'enumerated':
            text = native(render, columns, rows, listsep=LISTSEP, **opts)
        else:
            text = render(columns, rows, listsep=LISTSEP, **opts)
        label = check_text(columns, rows, text, opts['boxed'], opts['unicode'], opts['spaced'], opts['narrow'], opts['nullvalue'])
        return label or 'ok'


DEC_PALETTE = [D('0'), D('1'), D('-1'), D('2.50'), D('-2.50'), D('0.001'), D('-0.5'), D('-0.125'), D('12345.678'), D('1E+2'),
               D('100'), D('-67')]
SETS = [set(), {'a'}, {'b', 'a'}, {'tag-one', 'x'}, {'abcdef'}, {'a', 'b', 'c'}]
make_col('int', int, sym.VInt(-10 ** 5, 10 ** 5), 1, 300, 900)
make_col('int', int, sym.VInt(-99, 99), 2, 300, 900)
make_col('str', str, sym.VChoice(['', 'a', ' a', 'b ', 'a b', 'abc', 'a long string value'], str, nullable=True), 2, 240, 900)
make_col('bool', bool, sym.VBool(), 2, 180, 600)
make_col('date', datetime.date, sym.VChoice([datetime.date(2019, 1, 5), datetime.date(2020, 12, 31), datetime.date(1999, 2, 28)],
                                            datetime.date, nullable=True), 2, 240, 900)
make_col('decimal', D, sym.VDec(DEC_PALETTE[:8]), 2, 300, 600)
make_col('decimal-wide', D, sym.VDec(DEC_PALETTE[6:]), 2, 300, 600)
make_col('decimal', D, sym.VDec(DEC_PALETTE), 3, None, 1500, reduced_opts=True)
make_col('set', set, sym.VChoice(SETS, set, nullable=True), 2, 180, 600)
make_col('object', object, sym.VChoice([1, 'text', D('2.5'), (1, 2)], object, nullable=True), 2, 180, 600)


# ---------------------------------------------------------------------------
# the decimal renderer: inductive step on the two-phase protocol

def make_decimal_step(k):
    value = DEC_PALETTE[k]

    @cond(f'C16.decimal.step.{value}', quick=120,
          bounds=f'DecimalRenderer in an arbitrary accumulated state (nintegral 0..9, nfractional 0..6, as left by earlier '
                 f'values), one update({value}), prepare, format: the text has the column width, reads back to the value and its '
                 'decimal point sits at column nintegral; the state only grows',
          symbolic='renderer state', enumerated='the value (one condition each)', params={'ni': int, 'nf': int},
          group='C16.decimal',
          note='inductive step over the values of a column: alignment for any number of values follows')
    def decimal_step(ni, nf):
        ni, nf = enum_int(ni, 0, 9), enum_int(nf, 0, 6)
        return native(_decimal_step, value, ni, nf)


def _decimal_step(value, ni, nf):
    if True:
        r = query_render.DecimalRenderer(query_render.RenderContext(DCONTEXT))
        r.nintegral, r.nfractional = ni, nf
        r.update(value)
        if r.nintegral < ni or r.nfractional < nf:
            return 'state-shrinks'
        width = r.prepare()
        text = r.format(value)
        if len(text) != width:
            return 'width'
        if D(text.strip()) != value:
            return 'does-not-read-back'
        if value.as_tuple().exponent <= 0:
            mantissa = text.rstrip()
            point = text.index('.') if '.' in mantissa else len(mantissa)
            if point != r.nintegral:
                return 'decimal-point-not-at-nintegral'
        return 'ok'


for _k in range(len(DEC_PALETTE)):
    make_decimal_step(_k)


# ---------------------------------------------------------------------------
# several columns, CSV, empty results

MIX_COLUMNS = [('i', int, [None, 0, -7, 123456]), ('s', str, [None, '', 'a', 'hello world']), ('b', bool, [None, True, False]),
               ('d', datetime.date, [None, datetime.date(2019, 1, 5)]), ('x', D, [None, D('-0.5'), D('12.25'), D('3')]),
               ('t', set, [None, set(), {'b', 'a'}])]


@cond('C16.layout', quick=300, thorough=900,
      bounds='three columns chosen among int, str, bool, date, decimal, set with 2 rows of cells from small palettes (NULL '
             'included), long and short headers, every option combination: all lines equal width, columns at fixed offsets, '
             'every cell shows its value',
      symbolic='option bits', enumerated='column kinds, cells, nullvalue',
      params={'c0': int, 'c1': int, 'c2': int, 'r0': int, 'r1': int, **OPT_PARAMS})
def layout_cond(c0, c1, c2, r0, r1, **kw):
    c0 = enum_int(c0, 0, 5)
    kinds = [MIX_COLUMNS[c] for c in (c0, (c0 + 1 + enum_int(c1, 0, 1)) % 6, (c0 + 3) % 6)]
    r0, r1 = enum_int(r0, 0, 1), enum_int(r1, 0, 1)
    kw = dict(kw, hd=enum_int(kw['hd'], 0, 2), nv=enum_int(kw['nv'], 0, 2))
    columns = [Column((n * 3 if i == kw['hd'] % 3 else n), t) for i, (n, t, _) in enumerate(kinds)]
    rows = [tuple(vals[(r0 + i) % len(vals)] for i, (_, _, vals) in enumerate(kinds)),
            tuple(vals[(r1 + 2 * i) % len(vals)] for i, (_, _, vals) in enumerate(kinds))]
    opts = _opts(kw)
    text = native(render, columns, rows, listsep=LISTSEP, **opts)
    label = native(check_text, columns, rows, text, opts['boxed'], opts['unicode'], opts['spaced'], opts['narrow'], opts['nullvalue'])
    return label or 'ok'


@cond('C16.empty', quick=60,
      bounds='empty result and all-NULL column, every option combination: header and rule only / placeholder cells, '
             'rectangular', symbolic='option bits', enumerated='nullvalue, header', params={**OPT_PARAMS, 'allnull': bool})
def empty(allnull, **kw):
    columns = [Column(pick(HEADERS, kw['hd']), int), Column('s', str)]
    rows = [(None, None), (None, None)] if allnull else []
    opts = _opts(kw)
    text = native(render, columns, rows, listsep=LISTSEP, **opts)
    label = check_text(columns, rows, text, opts['boxed'], opts['unicode'], opts['spaced'], opts['narrow'], opts['nullvalue'])
    return label or 'ok'


@cond('C16.csv', quick=240,
      bounds='the same three-column results rendered as CSV: a header record and one record per row with exactly one field per '
             'column, each field equal to the text renderer\'s cell without padding (list items joined by commas)',
      symbolic='(none)', enumerated='column kinds, cells, nullvalue',
      params={'c0': int, 'c1': int, 'c2': int, 'r0': int, 'r1': int, 'nv': int})
def csv_cond(c0, c1, c2, r0, r1, nv):
    kinds = [pick(MIX_COLUMNS, c) for c in (c0, (c0 + 1 + enum_int(c1, 0, 1)) % 6, (c0 + 3 + enum_int(c2, 0, 1)) % 6)]
    r0, r1 = enum_int(r0, 0, 3), enum_int(r1, 0, 1)
    nullvalue = pick(NULLS, nv)
    columns = [Column(n, t) for n, t, _ in kinds]
    rows = [tuple(vals[(r0 + i) % len(vals)] for i, (_, _, vals) in enumerate(kinds)),
            tuple(vals[(r1 + 2 * i) % len(vals)] for i, (_, _, vals) in enumerate(kinds))]
    return native(_csv_check, columns, rows, nullvalue)


def _csv_check(columns, rows, nullvalue):
    out = io.StringIO()
    query_render.render_csv(columns, rows, DCONTEXT, out, nullvalue=nullvalue)
    records = list(csv.reader(io.StringIO(out.getvalue())))
    if len(records) != 1 + len(rows):
        return 'record-count'
    if records[0] != [c.name for c in columns]:
        return 'header-record'
    for row, rec in zip(rows, records[1:]):
        if len(rec) != len(columns):
            return 'field-count'
        for value, col, field in zip(row, columns, rec):
            if col.datatype is set and value is not None:
                want = ','.join(sorted(value))
            elif col.datatype is D and value is not None:
                if D(field.strip()) != value:
                    return 'decimal-field'
                continue
            else:
                want = expected_cell(value, col.datatype, nullvalue)
            if field.strip() != want.strip():
                return 'field-value'
    return 'ok'


# ---------------------------------------------------------------------------
# amounts, positions, inventories (concrete values; the number formatting is beancount's)

COST = position.Cost(D('100.00'), 'USD', datetime.date(2019, 1, 5), None)
AMOUNT_ROWS = [A(D('1.50'), 'USD'), A(D('-1234.5'), 'USD'), A(D('200'), 'JPY'), A(D('0.001'), 'HOOL'), None,
               # more digits than the ledger's display precision (USD: 2 places), one rounding up across a power of ten
               A(D('10.1234'), 'USD'), A(D('9.9951'), 'USD')]


def _inv(*items):
    inv = inventory.Inventory()
    for units, cost in items:
        inv.add_position(position.Position(units, cost))
    return inv


COST2 = position.Cost(D('120.00'), 'USD', datetime.date(2019, 2, 5), None)
INVENTORIES = [_inv(), _inv((A(D('1.50'), 'USD'), None)), _inv((A(D('2'), 'HOOL'), COST), (A(D('-3.25'), 'USD'), None)),
               _inv((A(D('200'), 'JPY'), None), (A(D('1.50'), 'USD'), None), (A(D('1'), 'HOOL'), None)), None,
               # two lots of one commodity (followed, in another row, by a single lot of it)
               _inv((A(D('2'), 'HOOL'), COST), (A(D('3'), 'HOOL'), COST2)), _inv((A(D('1'), 'HOOL'), COST2))]


def _amount_like_check(kind, i, j, boxed, expand, nullvalue):
    if kind == 'amount':
        dtype, values = amount.Amount, [AMOUNT_ROWS[i], AMOUNT_ROWS[j]]
    elif kind == 'position':
        mk = lambda a: None if a is None else position.Position(a, COST if a.currency == 'HOOL' else None)  # noqa: E731
        dtype, values = position.Position, [mk(AMOUNT_ROWS[i]), mk(AMOUNT_ROWS[j])]
    else:
        dtype, values = inventory.Inventory, [INVENTORIES[i], INVENTORIES[j]]
    columns = [Column('n', int), Column('v', dtype)]
    rows = [(1, values[0]), (22, values[1])]
    text = render(columns, rows, boxed=boxed, expand=expand, nullvalue=nullvalue, listsep=LISTSEP)
    lines = text.split('\n')[:-1]
    if len({len(ln) for ln in lines}) > 1:
        return 'lines-of-different-width'
    body = lines[(3 if boxed else 2):(-1 if boxed else None)]
    nlines = [1, 1]
    if kind == 'inventory' and expand:
        nlines = [max(1, len(v.get_positions())) if v is not None else 1 for v in values]
    if len(body) != sum(nlines):
        return 'expansion-line-count'
    if kind == 'inventory' and not expand and all(v is not None and len(v.get_positions()) <= 5 for v in values):
        # tabular layout: every commodity has its own sub-column, so its symbol starts at the same offset in every row
        blank = lambda ln: re.sub(r'\{[^}]*\}', lambda m: ' ' * len(m.group(0)), ln)      # noqa: E731  (cost annotations aside)
        for cur in set.intersection(*[{p.units.currency for p in v.get_positions()} for v in values]):
            offsets = {blank(ln).find(' ' + cur) for ln in body}
            if len(offsets) > 1:
                return f'commodity-sub-column-not-at-a-fixed-offset: {cur}'
    # every number and currency of the value is shown
    k = 0
    for v, n in zip(values, nlines):
        chunk = ' '.join(body[k:k + n])
        k += n
        if v is None:
            if nullvalue and nullvalue not in chunk:
                return 'null-placeholder'
            continue
        amounts = [v] if kind == 'amount' else ([v.units] if kind == 'position' else [p.units for p in v.get_positions()])
        if kind == 'amount':
            # shown at the ledger's display precision
            if str(DCONTEXT.quantize(v.number, v.currency)) not in chunk.replace('|', ' ').split():
                return 'amount-not-at-the-ledgers-display-precision'
        for a in amounts:
            if a.currency not in chunk:
                return 'currency-not-shown'
            shown = DCONTEXT.build().format(a.number, a.currency) if False else None
            shown_number = DCONTEXT.quantize(a.number, a.currency)     # (rounding may carry into the integer part)
            digits = str(abs(shown_number).quantize(D(1)) if shown_number == shown_number.to_integral_value() else abs(shown_number))
            if digits.split('.')[0].lstrip('0') and digits.split('.')[0] not in chunk.replace(',', ''):
                return 'number-not-shown'
    return 'ok'


def make_amount_like(kind):
    @cond(f'C16.{kind}', quick=180,
          bounds=f'an int column and a {kind} column of 2 rows over a palette (several currencies, negative, NULL'
                 + (', empty, 1..3 positions' if kind == 'inventory' else '') + '), boxed / expand / nullvalue: rectangular output, '
                 'every currency and number shown, expansion to extra lines only with expand',
          symbolic='(none)', enumerated='cells, options',
          params={'i': int, 'j': int, 'boxed': bool, 'expand': bool, 'nv': int}, group='C16.amount')
    def amount_like(i, j, boxed, expand, nv):
        top = len(INVENTORIES) - 1 if kind == 'inventory' else len(AMOUNT_ROWS) - 1
        i, j = enum_int(i, 0, top), enum_int(j, 0, top)
        nullvalue = pick(NULLS, nv)
        try:
            return native(_amount_like_check, kind, i, j, bool(boxed), bool(expand), nullvalue)
        except Exception as exc:
            return 'raises-' + type(exc).__name__


for _kind in ('amount', 'position', 'inventory'):
    make_amount_like(_kind)


# ---------------------------------------------------------------------------
# rows made of multi-line cells only: no result row disappears, in text or CSV

def _expand_rows_check(ncols, picks, boxed, expand, spaced, as_csv):
    columns = [Column(f'v{i}', inventory.Inventory) for i in range(ncols)]
    rows = [tuple(INVENTORIES[p] for p in row[:ncols]) for row in picks]
    height = lambda row: max([1] + [len(v.get_positions()) for v in row if v is not None]) if expand else 1   # noqa: E731
    want = [height(row) for row in rows]
    if as_csv:
        out = io.StringIO()
        # (the shell forwards every setting to both renderers: `spaced` is a text-only option and must not add records)
        query_render.render_csv(columns, rows, DCONTEXT, out, expand=expand, spaced=spaced, boxed=boxed)
        records = list(csv.reader(io.StringIO(out.getvalue())))
        if any(len(r) != ncols for r in records):
            return 'csv-field-count'
        if len(records) - 1 != sum(want):
            return 'csv-record-count'
        return 'ok'
    text = render(columns, rows, boxed=boxed, expand=expand, spaced=spaced, listsep=LISTSEP)
    lines = text.split('\n')[:-1]
    if len({len(ln) for ln in lines}) > 1:
        return 'lines-of-different-width'
    body = lines[(3 if boxed else 2):(-1 if boxed else None)]
    if len(body) != sum(want) + (len(rows) if spaced else 0):
        return 'text-line-count'
    return 'ok'


@cond('C16.expand.rows', quick=180,
      bounds='1 or 2 inventory columns (no scalar column), 2 rows over the inventory palette (empty, 1..3 positions, NULL); '
             'expand / boxed / spaced; text and CSV: every result row takes max(1, positions of its largest cell) lines / records '
             '(one without expand) - a row whose inventories are all empty is still shown',
      symbolic='(none)', enumerated='cells, column count, options',
      params={'two': bool, 'a': int, 'b': int, 'c': int, 'd': int, 'boxed': bool, 'expand': bool, 'spaced': bool, 'as_csv': bool},
      group='C16.amount')
def expand_rows(two, a, b, c, d, boxed, expand, spaced, as_csv):
    two = bool(two)
    n = 4       # the first five palette entries
    picks = [(enum_int(a, 0, n), enum_int(b, 0, n) if two else 0), (enum_int(c, 0, n), enum_int(d, 0, n) if two else 0)]
    try:
        return native(_expand_rows_check, 2 if two else 1, picks, bool(boxed), bool(expand), bool(spaced), bool(as_csv))
    except Exception as exc:
        return 'raises-' + type(exc).__name__
