"""C15 - PIVOT BY is a lossless reshaping of a two-key aggregate result."""

import itertools
from typing import Optional

import beanquery
from beanquery.parser import ast

from .. import refsem, sym
from ..h import cond, assume, cover, pick, enum_int, native
from ..printer import sel, col, const, target, func, select as print_select
from ..tables import HTable, connect, parse, execute
from .c01 import same, same_rows

COLUMNS = [('r', int), ('k', int), ('v', int)]
KEY2 = sym.VEnumInt(0, 1, nullable=False)


def _targets(layout, naggs):
    """Targets in the given layout: a permutation of ('r', 'k', aggregates...)."""
    aggs = [target(func('sum', col('v')), 's'), target(func('count', col('v')), 'n')][:naggs]
    named = {'r': target(col('r')), 'k': target(col('k'))}
    out = []
    ai = iter(aggs)
    for item in layout:
        out.append(named[item] if item in named else next(ai))
    return out


def _layouts(naggs):
    items = ['r', 'k'] + ['agg'] * naggs
    seen = []
    for perm in itertools.permutations(items):
        if perm not in seen:
            seen.append(perm)
    return seen


def _pivot_check(rows, layout, naggs, by_name, swap, order_by=None):
    """swap: PIVOT BY k, r instead of r, k."""
    targets = _targets(layout, naggs)
    names = [t.name or t.expression.name for t in targets]
    first, second = ('k', 'r') if swap else ('r', 'k')
    i1, i2 = names.index(first), names.index(second)
    refs = [col(first), col(second)] if by_name else [i1 + 1, i2 + 1]
    group = ast.GroupBy([col('r'), col('k')], None)
    plain = sel(targets, 't', group_by=group, order_by=order_by)
    pivoted = sel(targets, 't', group_by=group, order_by=order_by, pivot_by=ast.PivotBy(refs))
    conn = connect(t=HTable('t', COLUMNS, rows))
    desc0, rows0 = execute(conn, plain)
    desc1, rows1 = execute(conn, pivoted)
    want_names, want_types, want_rows = refsem.pivot([c.name for c in desc0], [c.datatype for c in desc0],
                                                     rows0, i1, i2)
    if [c.name for c in desc1] != want_names:
        return 'names'
    if [c.datatype for c in desc1] != want_types:
        return 'datatypes'
    if not same_rows(rows1, want_rows):
        return 'rows'
    # un-pivoting reproduces the un-pivoted result exactly
    others = [i for i in range(len(names)) if i not in (i1, i2)]
    keys2 = []
    for r in rows0:
        if r[i2] not in keys2:
            keys2.append(r[i2])
    keys2.sort()
    back = []
    for prow in rows1:
        for j, k2 in enumerate(keys2):
            block = prow[1 + j * len(others):1 + (j + 1) * len(others)]
            src = [r for r in rows0 if r[i1] == prow[0] and r[i2] == k2]
            if src:
                rebuilt = [None] * len(names)
                rebuilt[i1], rebuilt[i2] = prow[0], k2
                for o, cell in zip(others, block):
                    rebuilt[o] = cell
                back.append(tuple(rebuilt))
            elif any(cell is not None for cell in block):
                return 'value-invented-for-missing-combination'
    if sorted(back) != sorted(tuple(r) for r in rows0):
        return 'unpivot-differs'
    return None


def make_reshape(naggs, layout, nrows, quick, thorough):
    lname = '-'.join(layout)
    params = {}
    for i in range(nrows):
        params[f'r{i}'] = int
        params[f'k{i}'] = int
        params[f'v{i}'] = Optional[int]
    params['by_name'] = bool
    params['swap'] = bool

    @cond(f'C15.reshape.{lname}.{nrows}rows', quick=quick, thorough=thorough,
          bounds=f'{nrows} base rows (r, k in {{0,1}} enumerated because hashed; v unbounded symbolic int or NULL); targets in '
                 f'layout {lname}; GROUP BY r, k; PIVOT BY r, k or k, r given by names or positions',
          symbolic='v cells, by-name/by-position bit, pivot order bit', enumerated='r, k cells; layout (one condition each)',
          params=params, group='C15.reshape',
          note='oracle: the real un-pivoted query (C02) pivoted by the reference; the un-pivot round trip is checked too')
    def reshape(by_name, swap, **kw):
        rows = [(KEY2.build(f'r{i}', kw), KEY2.build(f'k{i}', kw), kw[f'v{i}']) for i in range(nrows)]
        return _pivot_check(rows, layout, naggs, True if by_name else False, True if swap else False) or 'ok'


for _naggs in (1, 2):
    for _layout in _layouts(_naggs):
        make_reshape(_naggs, _layout, 2, 120, 400)
        make_reshape(_naggs, _layout, 3, None, 1200)


@cond('C15.reshape.falsy-keys', quick=180,
      bounds='3 base rows with second-key values from {0, 1, -1, 9, 10, -10} (0 is falsy; numeric order differs from the order of the '
             'texts that become column names) and first-key values {5, 10} (first row: 5); v symbolic ints; one aggregate; '
             'PIVOT BY r, k and k, r',
      symbolic='v cells', enumerated='key cells',
      params={'r1': bool, 'r2': bool, 'k0': int, 'k1': int, 'k2': int, 'v0': int, 'v1': int, 'v2': int, 'swap': bool})
def reshape_falsy(r1, r2, k0, k1, k2, v0, v1, v2, swap):
    rr = [5, 10 if r1 else 5, 10 if r2 else 5]
    kk = [pick([0, 1, -1, 9, 10, -10], k) for k in (k0, k1, k2)]
    rows = list(zip(rr, kk, (v0, v1, v2)))
    return _pivot_check(rows, ('r', 'k', 'agg'), 1, True, True if swap else False) or 'ok'


ORDERS = [
    lambda: [ast.OrderBy(col('r'), ast.Ordering.DESC)],
    lambda: [ast.OrderBy(col('r'), ast.Ordering.ASC)],
    lambda: [ast.OrderBy(col('k'), ast.Ordering.DESC), ast.OrderBy(col('r'), ast.Ordering.DESC)],
    lambda: [ast.OrderBy(func('sum', col('v')), ast.Ordering.DESC)],
    lambda: [ast.OrderBy(1, ast.Ordering.DESC), ast.OrderBy(2, ast.Ordering.DESC)],
]


@cond('C15.reshape.ordered', quick=240, thorough=600,
      bounds='3 base rows (r, k in {0,1} enumerated, v symbolic int); SELECT r, k, sum(v) ... GROUP BY r, k ORDER BY <one of 5 '
             'forms: first pivot column DESC / ASC, second then first DESC, the aggregate DESC, positions DESC> PIVOT BY r, k or k, r: '
             'the pivoted rows and blocks are ascending whatever the ORDER BY clause',
      symbolic='v cells, pivot order bit', enumerated='r, k cells, ORDER BY form',
      params={**{f'{c}{i}': int for c in 'rk' for i in range(3)}, **{f'v{i}': int for i in range(3)},
              'swap': bool, 'order': int}, group='C15.reshape')
def reshape_ordered(swap, order, **kw):
    rows = [(KEY2.build(f'r{i}', kw), KEY2.build(f'k{i}', kw), kw[f'v{i}']) for i in range(3)]
    return _pivot_check(rows, ('r', 'k', 'agg'), 1, True, True if swap else False, pick(ORDERS, order)()) or 'ok'


@cond('C15.reshape.empty', quick=60,
      bounds='the aggregate result is empty (empty table, or a WHERE condition no row satisfies): the pivoted result has the single '
             'leading column first/second, typed like the first column, and no rows; PIVOT BY r, k and k, r, by name and by position',
      symbolic='(none)', enumerated='way of being empty, pivot order, spelling', params={'why': bool, 'swap': bool, 'by_name': bool})
def reshape_empty(why, swap, by_name):
    rows = [] if why else [(0, 1, 5), (1, 0, 7)]
    where = None if why else ast.And([ast.IsNull(col('r')), ast.IsNotNull(col('r'))])
    first, second = ('k', 'r') if swap else ('r', 'k')
    refs = [col(first), col(second)] if by_name else ([2, 1] if swap else [1, 2])
    stmt = sel([target(col('r')), target(col('k')), target(func('sum', col('v')), 's')], 't', where=where,
               group_by=ast.GroupBy([col('r'), col('k')], None), pivot_by=ast.PivotBy(refs))
    desc, got = execute(connect(t=HTable('t', COLUMNS, rows)), stmt)
    if [(c.name, c.datatype) for c in desc] != [(f'{first}/{second}', int)]:
        return 'description-of-an-empty-pivot'
    if got != []:
        return 'rows'
    return 'ok'


@cond('C15.validate', quick=120,
      bounds='SELECT r, k, sum(v) AS s [hidden GROUP BY / ORDER BY targets] PIVOT BY p, q with p, q symbolic positions in '
             '-1..6, each spelled as a position or as the name of that target (an unknown name when out of range): accepted iff '
             'both are in 1..3 (visible targets), distinct whatever the spelling, and the second one is a grouping column',
      symbolic='both positions', enumerated='with / without hidden targets; name / position spelling of each reference')
def validate(p: int, q: int, hidden: bool, pname: bool, qname: bool) -> str:
    p = enum_int(p, -1, 6)
    q = enum_int(q, -1, 6)
    names = ('r', 'k', 's')
    pref = (col(names[p - 1]) if 1 <= p <= 3 else col('zz')) if pname else p
    qref = (col(names[q - 1]) if 1 <= q <= 3 else col('zz')) if qname else q
    conn = connect(t=HTable('t', COLUMNS, [(0, 1, 2)]))
    targets = [target(col('r')), target(col('k')), target(func('sum', col('v')), 's')]
    order = [ast.OrderBy(func('max', col('v')), ast.Ordering.ASC)] if hidden else None
    stmt = sel(targets, 't', group_by=ast.GroupBy([col('r'), col('k')], None), order_by=order,
               pivot_by=ast.PivotBy([pref, qref]))
    want = 1 <= p <= 3 and 1 <= q <= 3 and p != q and q in (1, 2)
    try:
        conn.compile(stmt)
        got = True
    except beanquery.CompilationError:
        got = False
    except Exception as exc:
        return 'raises-' + type(exc).__name__
    if got != want:
        return 'accepted-invalid-reference' if got else 'rejected-valid-reference'
    return 'ok'


@cond('C15.validate.names', quick=60,
      bounds='PIVOT BY given by names: unknown name, equal names, second not grouped, non-aggregate query',
      symbolic='(none)', enumerated='case selector', params={'case': int})
def validate_names(case):
    conn = connect(t=HTable('t', COLUMNS, [(0, 1, 2)]))
    agg = [target(col('r')), target(col('k')), target(func('sum', col('v')), 's')]
    group = ast.GroupBy([col('r'), col('k')], None)
    cases = [
        (sel(agg, 't', group_by=group, pivot_by=ast.PivotBy([col('r'), col('k')])), True),
        (sel(agg, 't', group_by=group, pivot_by=ast.PivotBy([col('r'), col('zz')])), False),
        (sel(agg, 't', group_by=group, pivot_by=ast.PivotBy([col('k'), col('k')])), False),
        (sel(agg, 't', group_by=group, pivot_by=ast.PivotBy([col('r'), col('s')])), False),
        (sel([target(col('r')), target(col('k')), target(col('v'))], 't',
             pivot_by=ast.PivotBy([col('r'), col('k')])), False),
        (sel([target(col('r')), target(col('k')), target(col('v'))], 't', pivot_by=ast.PivotBy([1, 2])), False),
    ]
    stmt, want = pick(cases, case)
    try:
        conn.compile(stmt)
        got = True
    except beanquery.CompilationError:
        got = False
    except Exception as exc:
        return 'raises-' + type(exc).__name__
    if got != want:
        return 'acceptance'
    return 'ok'


KEYN = sym.VEnumInt(0, 1, nullable=True)


@cond('C15.reshape.null-keys', quick=240, thorough=900,
      bounds='2 base rows with r, k in {NULL, 0, 1} (NULL is an ordinary group and orders first); one aggregate',
      symbolic='v cells, pivot order bit', enumerated='key cells',
      params={'r0': int, 'r1': int, 'k0': int, 'k1': int, 'v0': Optional[int], 'v1': Optional[int], 'swap': bool})
def reshape_null(r0, r1, k0, k1, v0, v1, swap):
    rows = [(KEYN.build('r', {'r': r0}), KEYN.build('k', {'k': k0}), v0),
            (KEYN.build('r', {'r': r1}), KEYN.build('k', {'k': k1}), v1)]
    targets = _targets(('r', 'k', 'agg'), 1)
    first, second = ('k', 'r') if swap else ('r', 'k')
    group = ast.GroupBy([col('r'), col('k')], None)
    conn = connect(t=HTable('t', COLUMNS, rows))
    desc0, rows0 = execute(conn, sel(targets, 't', group_by=group))
    desc1, rows1 = execute(conn, sel(targets, 't', group_by=group, pivot_by=ast.PivotBy([col(first), col(second)])))
    i1, i2 = (1, 0) if swap else (0, 1)
    want_names, want_types, want_rows = refsem.pivot([c.name for c in desc0], [c.datatype for c in desc0], rows0, i1, i2)
    if not same_rows(rows1, want_rows):
        return 'rows'
    if len(desc1) != len(want_names):
        return 'shape'
    return 'ok'
