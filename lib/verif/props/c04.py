"""C04 - Type soundness: announced datatypes are truthful; accepted queries run type-safe."""

import collections.abc
import datetime
import decimal
from typing import Optional

from dateutil.relativedelta import relativedelta

import beanquery
from beancount.core import amount, data, inventory, position
from beanquery import query_compile, query_env, query_render, types
from beanquery.parser import ast
from beanquery.query_compile import FUNCTIONS, OPERATORS, EvalAggregator

from .. import refsem, sym, ledger
from ..h import cond, assume, cover, pick, enum_int, native, known
from ..printer import sel, col, const, target, func
from ..tables import HTable, connect, execute
from .c01 import operand_domains, tname, Stub

D = decimal.Decimal
A = amount.Amount
COST = position.Cost(D('100.00'), 'USD', datetime.date(2019, 1, 5), None)


def conforms(value, dtype):
    """NULL or an instance of the announced datatype; collections compared by kind; object admits anything."""
    if value is None or dtype is object:
        return True
    if dtype in (set, list, frozenset, tuple) or (isinstance(dtype, type) and issubclass(dtype, (set, frozenset, list, tuple))):
        return isinstance(value, (set, frozenset, list, tuple))
    if isinstance(dtype, type) and issubclass(dtype, dict):
        return isinstance(value, dict)
    if dtype is int:
        return isinstance(value, int) and not isinstance(value, bool)
    if dtype is D:
        return isinstance(value, D)
    if isinstance(dtype, type) and issubclass(dtype, types.Structure):
        return True
    return isinstance(value, dtype)


def _inv(*positions):
    inv = inventory.Inventory()
    for pos in positions:
        inv.add_position(pos)
    return inv


AMOUNTS = [A(D('1.50'), 'USD'), A(D('-2'), 'EUR'), A(D('0'), 'USD')]
POSITIONS = [position.Position(A(D('2'), 'HOOL'), COST), position.Position(A(D('-3.10'), 'USD'), None)]
INVENTORIES = [lambda: _inv(), lambda: _inv(POSITIONS[0]), lambda: _inv(POSITIONS[0], POSITIONS[1])]
STRINGS = ['Assets:Bank', 'USD', 'HOOL', 'a', '', '2019-01-05', '3 days', 'Expenses:Food:Lunch', 'x(y']
REGEXES = ['a', '^A', '(s+)(e)', 'USD|EUR', '']


def arg_domain(fname, t, i, intypes):
    if t is int:
        if D in intypes:
            return sym.VEnumInt(-3, 3)          # a symbolic int cannot meet a C Decimal (R4)
        if fname in ('round', 'maxwidth', 'substr', 'grepn', 'splitcomp', 'root'):
            return sym.VEnumInt(-5, 5)
        if fname == 'date':
            return sym.VInt(-40, 40)
        return sym.VInt(-100000, 100000)
    if t is bool:
        return sym.VBool()
    if t is D:
        return sym.VDec()
    if t is datetime.date:
        if fname in ('date_bin', 'weekday', 'date_part'):
            # all arguments of these functions are enumerated and the call runs natively: native dates
            return sym.VChoice([datetime.date(2019, 1, 31), datetime.date(2020, 2, 29), datetime.date(2018, 12, 1)],
                               datetime.date, nullable=True)
        return sym.VDate(2019, 2021)
    if t is str:
        if fname in ('grep', 'grepn', 'subst', 'findfirst', 'has_account') and i == 0:
            return sym.VChoice(REGEXES, str, nullable=True)
        if fname in ('date_trunc', 'date_part') and i == 0:
            return sym.VChoice(['week', 'month', 'quarter', 'year', 'decade', 'century', 'millennium', 'dow', 'epoch', 'zz'],
                               str, nullable=True)
        if fname in ('parse_date',) and i == 1:
            return sym.VChoice(['%Y-%m-%d', '%d/%m/%Y'], str, nullable=True)
        if fname in ('parse_date',):
            return sym.VChoice(['2019-01-05', '05/01/2019'], str, nullable=True)
        if fname == 'interval' or (fname == 'date_bin' and i == 0):
            return sym.VChoice(['3 days', '1 month', '2 years', '-1 day', 'zz', '0 days'], str, nullable=True)
        return sym.VChoice(STRINGS, str, nullable=True)
    if t is amount.Amount:
        return sym.VChoice(AMOUNTS, amount.Amount, nullable=True)
    if t is position.Position:
        return sym.VChoice(POSITIONS, position.Position, nullable=True)
    if t is inventory.Inventory:
        return sym.VChoice([sym.Lazy(m, f'inventory{n}') for n, m in enumerate(INVENTORIES)], inventory.Inventory, nullable=True)
    if t is set:
        return sym.VChoice([set(), {'a'}, {'b', 'Assets:Bank'}], set, nullable=True)
    if t is list:
        return sym.VChoice([[], ['a'], ['b', 'a']], list, nullable=True)
    if t is dict:
        return sym.VChoice([{}, {'k': 'v'}, {'k': 1, 'filename': 'f', 'lineno': 3}], dict, nullable=True)
    if t is relativedelta:
        if fname == 'date_bin':
            return sym.VChoice([relativedelta(days=3), relativedelta(months=1), relativedelta(years=2),
                                relativedelta(days=-1), relativedelta(months=-1)], relativedelta, nullable=True)
        return sym.VDelta(40, months=1, years=1)
    if t is object or t is types.Any:
        return sym.VChoice(sym.OBJECT_VALUES, object)
    raise KeyError(t)


def _row(conn):
    """A row context as the postings table produces it (first posting of the fixture ledger)."""
    for context in conn.tables['postings']:
        return context


SKIP_FUNCS = {'meta', 'entry_meta', 'any_meta', 'today', 'getitem'}   # rewritten by the compiler / no argument / C11
RUNTIME_VALUE_ERRORS = (ValueError, decimal.InvalidOperation, OverflowError, IndexError, ZeroDivisionError)


def make_ret(fname, fcls, k):
    intypes = list(fcls.__intypes__)
    sig = ','.join(tname(t) for t in intypes)
    doms = {f'a{i}': arg_domain(fname, t, i, intypes) for i, t in enumerate(intypes)}
    heavy = any(isinstance(d, (sym.VDate, sym.VDelta)) for d in doms.values())

    @cond(f'C04.ret.{fname}[{sig}]', quick=180 if heavy else 60, thorough=720 if heavy else 240,
          bounds=sym.describe_all(doms) or 'no arguments',
          symbolic='int / bool / date / interval arguments', enumerated='string, decimal, amount-like and collection arguments',
          params=sym.all_params(doms) or {'dummy': bool}, group='C04.ret')
    def ret(**kw):
        values = [doms[f'a{i}'].build(f'a{i}', kw) for i in range(len(intypes))]
        conn = ledger.connect()
        stubs = [Stub(d.dtype if t in (types.Any, object) else t, v, [], i)
                 for i, (t, d, v) in enumerate(zip(intypes, doms.values(), values))]
        node = fcls(conn, stubs)
        row = _row(conn)
        try:
            if all(d.kind == 'enumerated' for d in doms.values()):
                got = native(node, row)         # nothing symbolic: run at native speed
            else:
                got = node(row)
        except (TypeError, AttributeError) as exc:
            return 'type-error-at-execution:' + type(exc).__name__
        except RUNTIME_VALUE_ERRORS:
            # not a *type* error: the value domain of the function (C18 covers the casts and laws)
            cover('value-error')
            return 'ok'
        if not conforms(got, node.dtype):
            return 'value-not-of-announced-datatype'
        cover('null' if got is None else 'value')
        return 'ok'


for _fname, _overloads in sorted(FUNCTIONS.items()):
    for _k, _fcls in enumerate(_overloads):
        if _fname in SKIP_FUNCS or issubclass(_fcls, EvalAggregator) or _fname.startswith('verif_'):
            continue
        make_ret(_fname, _fcls, _k)


def make_ret_op(astcls, opcls, domains, variant):
    intypes = list(opcls.__intypes__)
    sig = ','.join(tname(t) for t in intypes)
    prefixes = [f'a{i}' for i in range(len(intypes))]
    doms = dict(zip(prefixes, domains))
    vtag = '' if variant is None else f'.{variant}'
    heavy = datetime.date in intypes

    @cond(f'C04.op.{astcls.__name__}[{sig}]{vtag}', quick=180 if heavy else 60, bounds=sym.describe_all(doms),
          symbolic='operand values', enumerated='overload', params=sym.all_params(doms), group='C04.op')
    def ret_op(**kw):
        values = [doms[p].build(p, kw) for p in prefixes]
        stubs = [Stub(d.dtype if t is types.Any else t, v, [], i)
                 for i, (t, d, v) in enumerate(zip(intypes, domains, values))]
        node = opcls(*stubs)
        try:
            got = node(None)
        except (TypeError, AttributeError) as exc:
            return 'type-error-at-execution:' + type(exc).__name__
        if not conforms(got, node.dtype):
            return 'value-not-of-announced-datatype'
        return 'ok'


for _astcls, _overloads in OPERATORS.items():
    for _opcls in _overloads:
        _variants = operand_domains(_astcls, list(_opcls.__intypes__))
        for _n, _domains in enumerate(_variants):
            make_ret_op(_astcls, _opcls, _domains, None if len(_variants) == 1 else _n)


# ---------------------------------------------------------------------------
# C04.agg: every aggregate x admissible argument dtype

AGG_ARG_DOMAINS = {
    int: sym.VInt(), bool: sym.VBool(), D: sym.VDec(sym.SMALL_PALETTE), str: sym.VChoice(['', 'a', 'b', 'ab'], str, nullable=True),
    datetime.date: sym.VDate(2019, 2020, maxday=28),
    amount.Amount: sym.VChoice(AMOUNTS, amount.Amount, nullable=True),
    position.Position: sym.VChoice(POSITIONS, position.Position, nullable=True),
    inventory.Inventory: sym.VChoice([sym.Lazy(m, f'inventory{n}') for n, m in enumerate(INVENTORIES)], inventory.Inventory,
                                     nullable=True),
    set: sym.VChoice([set(), {'a'}, {'a', 'b'}], set, nullable=True),
    dict: sym.VChoice([{}, {'k': 1}, {'k': 2, 'j': 0}], dict, nullable=True),
    object: sym.VChoice([None, 1, 5, -2], object),      # untyped but homogeneous values
}


def make_agg(fname, dtype):
    dom = AGG_ARG_DOMAINS[dtype]
    doms = {'v0': dom, 'v1': dom}

    @cond(f'C04.agg.{fname}[{tname(dtype)}]', quick=120, thorough=480,
          bounds=f'SELECT {fname}(c) FROM #t over 2 rows of a {tname(dtype)} column: ' + dom.describe(),
          symbolic='cells where the domain is symbolic', enumerated='aggregate x argument dtype (one condition each)',
          params=sym.all_params(doms), group='C04.agg')
    def agg(**kw):
        rows = [(doms['v0'].build('v0', kw),), (doms['v1'].build('v1', kw),)]
        conn = connect(t=HTable('t', [('c', dtype)], rows))
        stmt = sel([target(func(fname, col('c')), 'r')], 't')
        try:
            query = native(conn.compile, stmt)
        except beanquery.CompilationError:
            cover('rejected')
            return 'ok'
        try:
            desc, got = beanquery.query_execute.execute_query(query)
        except (TypeError, AttributeError) as exc:
            if (fname in ('min', 'max') and issubclass(dtype, dict) and isinstance(exc, TypeError)
                    and known('C04.minmax-unorderable')):
                cover('known-finding')
                return 'ok'
            return 'type-error-at-execution:' + type(exc).__name__
        if len(got) != 1:
            return 'shape'
        if not conforms(got[0][0], desc[0].datatype):
            return 'value-not-of-announced-datatype'
        import beancount.core.display_context as dc
        if query_render._get_renderer(desc[0].datatype, query_render.RenderContext(dc.DisplayContext())) is None:
            return 'no-renderer-for-announced-datatype'
        cover('accepted')
        return 'ok'


for _fname in ('count', 'sum', 'first', 'last', 'min', 'max'):
    for _dtype in AGG_ARG_DOMAINS:
        make_agg(_fname, _dtype)


@cond('C04.render.dispatch', quick=60,
      bounds='every datatype announced by a registered operator / function overload or a ledger table column: a renderer is '
             'found for it',
      symbolic='(none)', enumerated='datatype (selector)', params={'i': int})
def render_dispatch(i):
    import beanquery.sources.beancount as src
    dtypes = []
    for overloads in list(OPERATORS.values()) + list(FUNCTIONS.values()):
        for cls in overloads:
            try:
                stubs = [Stub(object if t in (types.Any, types.Asterisk) else t, None, [], 0) for t in cls.__intypes__]
                node = cls(None, stubs) if issubclass(cls, query_compile.EvalFunction) else cls(*stubs)
                if node.dtype not in dtypes:
                    dtypes.append(node.dtype)
            except Exception:
                pass
    for tcls in src.TABLES:
        for c in tcls.columns.values():
            if c.dtype not in dtypes:
                dtypes.append(c.dtype)
    dtype = pick(dtypes, i % len(dtypes))
    assume(i < len(dtypes))
    import beancount.core.display_context as dc
    ctx = query_render.RenderContext(dc.DisplayContext())
    if query_render._get_renderer(dtype, ctx) is None:
        return f'no-renderer:{dtype}'
    return 'ok'


# ---------------------------------------------------------------------------
# wide aggregate query: grouping keys land in their own columns (shared with C02)

from .c02 import query_wide as _query_wide  # noqa: E402

cond('C04.agg.wide', quick=180,
     bounds='2 rows; aggregate query with 10 targets, grouping columns at target positions 2 (int) and 9 (bool): every '
            'value is of the datatype announced for its column',
     symbolic='v, w cells', enumerated='k cells',
     params={'k0': int, 'k1': int, 'w0': bool, 'w1': bool, 'v0': Optional[int], 'v1': Optional[int]})(
         lambda **kw: _query_wide(**kw))


COALESCE_COLS = [('i', int, sym.VInt()), ('b', bool, sym.VBool()), ('s', str, sym.VStr(2)), ('d', D, sym.VDec(sym.SMALL_PALETTE)),
                 ('o', object, sym.VChoice([None, 1, 'abc', D('2.50'), True], object))]


def _coalesce_params():
    p = {'i': int, 'j': int}
    for name, _, dom in COALESCE_COLS:
        p.update(dom.params('x' + name))
        p.update(dom.params('y' + name))
    return p


@cond('C04.coalesce', quick=180,
      bounds='coalesce(c1, c2) for every ordered pair of column datatypes out of int, bool, str, Decimal, object: accepted iff '
             'the datatypes are the same; when accepted the value conforms to the announced datatype',
      symbolic='cells', enumerated='datatype pair (two selectors)', params=_coalesce_params())
def coalesce_matrix(i, j, **kw):
    (n1, t1, d1), (n2, t2, d2) = pick(COALESCE_COLS, i), pick(COALESCE_COLS, j)
    columns = [('c1', t1), ('c2', t2)]
    stmt = sel([target(func('coalesce', col('c1'), col('c2')), 'r')], 't')
    try:
        native(connect(t=HTable('t', columns, [])).compile, stmt)
        accepted = True
    except beanquery.CompilationError:
        accepted = False
    if accepted != (t1 is t2):
        return 'non-uniform-coalesce-accepted' if accepted else 'uniform-coalesce-rejected'
    if not accepted:
        return 'ok'
    x, y = d1.build('x' + n1, kw), d2.build('y' + n2, kw)
    desc, rows = execute(connect(t=HTable('t', columns, [(x, y)])), stmt)
    if not conforms(rows[0][0], desc[0].datatype):
        return 'value-not-of-announced-datatype'
    return 'ok'


# ---------------------------------------------------------------------------
# C04.bool: AND / OR / NOT announce bool and accept operands of any type

BOOLOP_COLS = COALESCE_COLS + [('st', set, sym.VChoice([None, set(), {'a'}], set))]


def _boolop_params():
    p = {'i': int, 'j': int, 'form': int}
    for name, _, dom in BOOLOP_COLS:
        p.update(dom.params('x' + name))
        p.update(dom.params('y' + name))
    return p


@cond('C04.bool.and-or-not', quick=300, thorough=900,
      bounds='c1 AND c2, c1 OR c2, NOT c1, c1 AND c2 AND TRUE, c1 OR c2 OR FALSE for every ordered pair of column datatypes out of '
             'int, bool, str, Decimal, object, set (falsy non-boolean values - 0, empty string, zero decimal, empty set - '
             'included): accepted, announced bool, and the value in the result is NULL, TRUE or FALSE - never the operand itself',
      symbolic='cells', enumerated='datatype pair, form (selectors)', params=_boolop_params())
def bool_and_or_not(i, j, form, **kw):
    (n1, t1, d1), (n2, t2, d2) = pick(BOOLOP_COLS, i), pick(BOOLOP_COLS, j)
    columns = [('c1', t1), ('c2', t2)]
    c1, c2 = col('c1'), col('c2')
    node = pick([lambda: ast.And([c1, c2]), lambda: ast.Or([c1, c2]), lambda: ast.Not(c1),
                 lambda: ast.And([c1, c2, const(True)]), lambda: ast.Or([c1, c2, const(False)])], form)()
    stmt = sel([target(node, 'r')], 't')
    x, y = d1.build('x' + n1, kw), d2.build('y' + n2, kw)
    try:
        desc, rows = execute(connect(t=HTable('t', columns, [(x, y)])), stmt)
    except beanquery.CompilationError:
        return 'boolean-operator-rejected'
    if desc[0].datatype is not bool:
        return 'announced-datatype'
    value = rows[0][0]
    if not (value is None or value is True or value is False):
        return 'value-not-of-announced-datatype'
    return 'ok'


# ---------------------------------------------------------------------------
# C04.group-key: a grouping key the type checker accepts can be hashed at execution

GROUP_KEY_COLS = [('i', int, 1), ('s', str, 'x'), ('b', bool, True), ('d', D, D('1.5')), ('m', dict, {'k': 1}), ('st', set, {'a'}),
                  ('l', list, ['a']), ('o', object, None), ('inv', inventory.Inventory, _inv(POSITIONS[1]))]


@cond('C04.group-key', quick=120,
      bounds='SELECT c, count(*) GROUP BY <c by position | by name | by alias | implicitly | as a hidden key> for a column c of each '
             f'of {len(GROUP_KEY_COLS)} datatypes (int, str, bool, Decimal, dict, set, list, object, Inventory) over a two-row table: '
             'either rejected at compile time or executed without a TypeError, the key cell conforming to its announced datatype',
      symbolic='(none)', enumerated='datatype, spelling of the key', params={'i': int, 'form': int})
def group_key(i, form):
    name, dtype, value = pick(GROUP_KEY_COLS, i)
    form = enum_int(form, 0, 4)

    def run():
        count = target(func('count', ast.Asterisk()), 'n')
        stmt = [
            lambda: sel([target(col('c')), count], 't', group_by=ast.GroupBy([1], None)),
            lambda: sel([target(col('c')), count], 't', group_by=ast.GroupBy([col('c')], None)),
            lambda: sel([target(col('c'), 'cc'), count], 't', group_by=ast.GroupBy([col('cc')], None)),
            lambda: sel([target(col('c')), count], 't'),
            lambda: sel([count], 't', group_by=ast.GroupBy([col('c')], None)),
        ][form]()
        conn = connect(t=HTable('t', [('c', dtype)], [(value,), (value,)]))
        try:
            query = conn.compile(stmt)
        except beanquery.CompilationError:
            return 'ok'
        try:
            desc, rows = beanquery.query_execute.execute_query(query)
        except TypeError as exc:
            return 'type-error-at-execution:' + str(exc)[:60]
        if form < 4 and not conforms(rows[0][0], desc[0].datatype):
            return 'value-not-of-announced-datatype'
        return 'ok'
    return native(run)


# ---------------------------------------------------------------------------
# C04.folded: operators folded over literal operands announce the operator's result type

FOLD_LITERALS = [('int', 5), ('zero', 0), ('str', 'abc'), ('empty', ''), ('decimal', D('1.5')), ('date', datetime.date(2012, 1, 1)),
                 ('bool', True), ('null', None)]


@cond('C04.folded', quick=120,
      bounds=f'NOT x, x IS NULL, x IS NOT NULL, -x for a literal x of each of {[n for n, _ in FOLD_LITERALS]} (folded by the compiler) and '
             'x = x, x + x for the same literals: when accepted, the value conforms to the announced datatype',
      symbolic='(none)', enumerated='literal, operator', params={'i': int, 'op': int})
def folded(i, op):
    name, value = pick(FOLD_LITERALS, i)
    op = enum_int(op, 0, 5)

    def run():
        x = const(value)
        node = [lambda: ast.Not(x), lambda: ast.IsNull(x), lambda: ast.IsNotNull(x), lambda: ast.Neg(x),
                lambda: ast.Equal(x, const(value)), lambda: ast.Add(x, const(value))][op]()
        stmt = sel([target(node, 'r')], 't')
        conn = connect(t=HTable('t', [('c', int)], [(1,)]))
        try:
            query = conn.compile(stmt)
        except beanquery.CompilationError:
            return 'ok'
        try:
            desc, rows = beanquery.query_execute.execute_query(query)
        except TypeError as exc:
            return 'type-error-at-execution:' + str(exc)[:60]
        if not conforms(rows[0][0], desc[0].datatype):
            return f'value-not-of-announced-datatype ({desc[0].datatype.__name__})'
        return 'ok'
    return native(run)


# ---------------------------------------------------------------------------
# C04.pivot: the pivoted description announces the datatypes of the cells it holds

@cond('C04.pivot', quick=120,
      bounds='SELECT <permutation of (k: int, s: str, sum(d): Decimal, count(*): int)> ... GROUP BY k, s PIVOT BY every ordered pair of the '
             'two grouping columns (by position): every cell of the pivoted rows conforms to the datatype announced for its column',
      symbolic='(none)', enumerated='target permutation, pivot order', params={'perm': int, 'swap': bool})
def pivot_datatypes(perm, swap):
    import itertools
    perm = enum_int(perm, 0, 23)
    swap = bool(swap)

    def run():
        items = {'k': lambda: target(col('k')), 's': lambda: target(col('s')), 'd': lambda: target(func('sum', col('d')), 'sd'),
                 'n': lambda: target(func('count', ast.Asterisk()), 'n')}
        layout = list(itertools.permutations(['k', 's', 'd', 'n']))[perm]
        targets = [items[x]() for x in layout]
        pk, ps = layout.index('k') + 1, layout.index('s') + 1
        refs = [ps, pk] if swap else [pk, ps]
        stmt = sel(targets, 't', group_by=ast.GroupBy([col('k'), col('s')], None), pivot_by=ast.PivotBy(refs))
        rows = [(1, 'x', D('1.5')), (2, 'y', D('2.5')), (1, 'y', D('4')), (2, 'x', None)]
        conn = connect(t=HTable('t', [('k', int), ('s', str), ('d', D)], rows))
        desc, got = beanquery.query_execute.execute_query(conn.compile(stmt))
        for row in got:
            if len(row) != len(desc):
                return 'row-width'
            for cell, column in zip(row, desc):
                if not conforms(cell, column.datatype):
                    return f'pivoted-cell-not-of-announced-datatype ({column.name}: {column.datatype.__name__})'
        return 'ok'
    return native(run)


@cond('C04.in-operands', quick=120,
      bounds='x [NOT] IN y for x a column of each of int, str, Decimal, object (non-NULL cells) and y a column of each of int, str, Decimal, '
             'date, bool, set, list, dict, object: either rejected at compile time or evaluated without a TypeError, giving NULL or a '
             'boolean',
      symbolic='(none)', enumerated='operand datatypes, negation', params={'i': int, 'j': int, 'neg': bool})
def in_operands(i, j, neg):
    lefts = [('int', int, 1), ('str', str, 'a'), ('Decimal', D, D('1')), ('object', object, 'a')]
    rights = [('int', int, 1), ('str', str, 'abc'), ('Decimal', D, D('1')), ('date', datetime.date, datetime.date(2019, 1, 5)),
              ('bool', bool, True), ('set', set, {'a'}), ('list', list, ['a', 1]), ('dict', dict, {'a': 1}), ('object', object, ('a',))]
    (ln, lt, lv), (rn, rt, rv) = pick(lefts, i), pick(rights, j)

    def run():
        stmt = sel([target((ast.NotIn if neg else ast.In)(col('x'), col('y')), 'r')], 't')
        conn = connect(t=HTable('t', [('x', lt), ('y', rt)], [(lv, rv)]))
        try:
            query = conn.compile(stmt)
        except beanquery.CompilationError:
            return 'ok'
        try:
            desc, rows = beanquery.query_execute.execute_query(query)
        except TypeError as exc:
            return f'type-error-at-execution ({ln} IN {rn}): ' + str(exc)[:50]
        if not (rows[0][0] is None or rows[0][0] is True or rows[0][0] is False):
            return 'value-not-of-announced-datatype'
        return 'ok'
    return native(run)
