"""C03 - ORDER BY / DISTINCT / LIMIT."""

import datetime
import itertools
from typing import List, Optional, Tuple

import beanquery
from beanquery import query_execute
from beanquery.parser import ast

from .. import refsem, sym
from ..h import cond, assume, cover, pick, enum_int, native
from ..printer import sel, col, const, target, func, select as print_select
from ..tables import HTable, connect, parse
from .c01 import same, same_rows

COLUMNS = [('a', int), ('b', int), ('c', int)]

# ways of naming an ORDER BY key over targets (a, b) and hidden column c
KEYS = {
    'pos1': lambda: 1,                                  # output position -> a
    'pos2': lambda: 2,                                  # output position -> b
    'name_b': lambda: col('b'),                         # output name
    'hidden_c': lambda: col('c'),                       # column not selected
    'expr': lambda: ast.Add(col('a'), col('c')),        # expression, not selected
    'expr_sel': lambda: ast.Neg(col('b')),              # expression equal to a selected target (third target)
    'neg_hidden': lambda: ast.Neg(col('c')),            # same operator as the selected target -b, over another (hidden) column
    'isnull_hidden': lambda: ast.IsNull(col('c')),      # unary test over a hidden column
}


def _order_stmt(keys, dirs, extra_target=False):
    targets = [target(col('a')), target(col('b'))]
    if extra_target:
        targets.append(target(ast.Neg(col('b')), 'nb'))
    order = [ast.OrderBy(KEYS[k](), ast.Ordering.DESC if d else ast.Ordering.ASC) for k, d in zip(keys, dirs)]
    return sel(targets, 't', order_by=order)


def _run_both(stmt, rows, columns=COLUMNS):
    conn = connect(t=HTable('t', columns, list(rows)))
    cur = conn.execute(stmt)
    got = cur.fetchall()
    want = refsem.Ref({'t': (columns, list(rows))}).select(stmt)
    return cur, got, want


def make_pair(keys, quick, thorough):
    name = '+'.join(keys)
    n = len(keys)
    params = {'r0': Tuple[Optional[int], Optional[int], Optional[int]],
              'r1': Tuple[Optional[int], Optional[int], Optional[int]]}
    for i in range(n):
        params[f'd{i}'] = bool

    @cond(f'C03.pair.{name}', quick=quick, thorough=thorough,
          bounds='exactly 2 rows x 3 int columns, every cell symbolic (unbounded) or NULL; every ASC/DESC combination',
          symbolic='all six cells, the direction bit of each key',
          enumerated='key list (one condition per list of key forms: position / name / hidden column / expression)',
          params=params, group='C03.pair',
          note='stable-sort lemma: with stable passes the relative order of two rows depends only on those two rows '
               '(list.sort is documented stable, also with reverse=True); 3-row tables cross-check it (C03.three)')
    def pair(r0, r1, **dirs):
        dd = [True if dirs[f'd{i}'] else False for i in range(n)]
        stmt = _order_stmt(keys, dd, extra_target='expr_sel' in keys or 'neg_hidden' in keys)
        cur, got, want = _run_both(stmt, [r0, r1])
        if not same_rows(got, want.rows):
            return 'order'
        if len(cur.description) != len(want.names):
            return 'hidden-key-visible'
        return 'ok'


@cond('C03.pair.alias-shadows-column', quick=120, thorough=480,
      bounds='exactly 2 rows x 3 int columns, every cell symbolic or NULL; SELECT b AS a, a AS b, c FROM #t ORDER BY a [DESC] [, b]: '
             'an ORDER BY name that is both an output name and the name of another table column means the output column',
      symbolic='all six cells, direction, second key presence',
      params={'r0': Tuple[Optional[int], Optional[int], Optional[int]], 'r1': Tuple[Optional[int], Optional[int], Optional[int]],
              'desc': bool, 'two': bool}, group='C03.pair')
def pair_alias_shadows(r0, r1, desc, two):
    order = [ast.OrderBy(col('a'), ast.Ordering.DESC if desc else ast.Ordering.ASC)]
    if two:
        order.append(ast.OrderBy(col('b'), ast.Ordering.ASC))
    stmt = sel([target(col('b'), 'a'), target(col('a'), 'b'), target(col('c'))], 't', order_by=order)
    cur, got, want = _run_both(stmt, [r0, r1])
    # written out: sorted by the first output column (= table column b), NULL first (last when descending)
    key = lambda row: (row[1] is not None, row[1] if row[1] is not None else 0)    # noqa: E731
    k0, k1 = key(r0), key(r1)
    if k0 != k1:
        first = r0 if (k0 < k1) != bool(desc) else r1
        if not same_rows(got[:1], [(first[1], first[0], first[2])]):
            return 'sorted-by-the-table-column-instead-of-the-output-column'
    if not same_rows(got, want.rows):
        return 'order'
    return 'ok'


_K1 = ['pos1', 'name_b', 'hidden_c', 'expr', 'expr_sel', 'neg_hidden']
for _k in _K1:
    make_pair((_k,), 60, 240)
_K2 = ['pos1', 'name_b', 'hidden_c', 'expr']
_QUICK2 = {('pos1', 'name_b'), ('name_b', 'pos1'), ('hidden_c', 'pos1'), ('pos1', 'hidden_c'), ('expr', 'name_b'),
           ('name_b', 'hidden_c')}
for _ka in _K2:
    for _kb in _K2:
        if _ka != _kb:
            make_pair((_ka, _kb), 120 if (_ka, _kb) in _QUICK2 else None, 480)
# the same key listed twice (same or another spelling) with independent directions: the first occurrence decides
for _ks in [('name_b', 'hidden_c', 'name_b'), ('pos2', 'pos1', 'name_b'), ('hidden_c', 'hidden_c'), ('expr', 'pos1', 'expr'),
            ('neg_hidden', 'pos1'), ('isnull_hidden', 'neg_hidden')]:
    make_pair(_ks, 240, 600)
_QUICK3 = [('pos1', 'name_b', 'hidden_c'), ('hidden_c', 'name_b', 'pos1'), ('name_b', 'hidden_c', 'pos1')]
for _ks in itertools.permutations(['pos1', 'name_b', 'hidden_c'], 3):
    make_pair(_ks, 240 if _ks in _QUICK3 else None, 900)


@cond('C03.null', quick=60,
      bounds='two sort keys of 1..2 components, each an unbounded symbolic int or NULL',
      symbolic='all components', note='the contract the stable-sort lemma needs from the key function')
def null_order(x0: Optional[int], x1: Optional[int], y0: Optional[int], y1: Optional[int], two: bool) -> str:
    if two:
        kx = query_execute.nullitemgetter(0, 1)((x0, x1))
        ky = query_execute.nullitemgetter(0, 1)((y0, y1))
        c = refsem._cmp_null_first(x0, y0) or refsem._cmp_null_first(x1, y1)
    else:
        kx = query_execute.nullitemgetter(0)((x0, x1))
        ky = query_execute.nullitemgetter(0)((y0, y1))
        c = refsem._cmp_null_first(x0, y0)
    if (kx < ky) != (c < 0):
        return 'lt'
    if (ky < kx) != (c > 0):
        return 'gt'
    if kx < kx:
        return 'irreflexive'
    return 'ok'


@cond('C03.three', quick=None, thorough=1500,
      bounds='3 rows x 2 int key columns (+1 carried), cells symbolic or NULL; ORDER BY 1, b with every direction pair',
      symbolic='all cells, direction bits')
def three(r0: Tuple[Optional[int], Optional[int]], r1: Tuple[Optional[int], Optional[int]],
          r2: Tuple[Optional[int], Optional[int]], d0: bool, d1: bool) -> str:
    rows = [r0 + (0,), r1 + (1,), r2 + (2,)]
    stmt = _order_stmt(('pos1', 'name_b'), [bool(d0), bool(d1)])
    stmt = sel([target(col('a')), target(col('b')), target(col('c'))], 't', order_by=stmt.order_by)
    cur, got, want = _run_both(stmt, rows)
    if not same_rows(got, want.rows):
        return 'order'
    return 'ok'


KEYDOM = sym.VEnumInt(0, 1)     # hashed values: {NULL, 0, 1} (R3)


def _small_rows(n, kw, ncols):
    rows = []
    for i in range(n):
        rows.append(tuple(KEYDOM.build(f'r{i}c{j}', kw) for j in range(ncols)))
    return rows


def make_distinct(nrows, quick, thorough):
    params = {f'r{i}c{j}': int for i in range(nrows) for j in range(2)}

    @cond(f'C03.distinct.{nrows}rows', quick=quick, thorough=thorough,
          bounds=f'{nrows} rows x 2 columns, cells in {{NULL, 0, 1}} (rows are hashed by the executor: R3)',
          symbolic='(cells enumerated by forking)', enumerated='all cell assignments', params=params,
          group='C03.distinct')
    def distinct(**kw):
        rows = _small_rows(nrows, kw, 2)
        columns = [('a', int), ('b', int)]
        stmt = sel([target(col('a')), target(col('b'))], 't', distinct=True)
        cur, got, want = _run_both(stmt, rows, columns)
        if not same_rows(got, want.rows):
            return 'distinct'
        cover('dup' if len(got) < nrows else 'nodup')
        return 'ok'


make_distinct(2, 60, 120)
make_distinct(3, 240, 600)


@cond('C03.distinct.one-column', quick=120,
      bounds='<=3 rows (a in {NULL,0,1} enumerated, b symbolic int); SELECT DISTINCT a: duplicates judged on the '
             'visible cells only',
      symbolic='b cells, row count', enumerated='a cells')
def distinct_visible(n: int, a0: int, a1: int, a2: int, b0: Optional[int], b1: Optional[int], b2: Optional[int]) -> str:
    n = enum_int(n, 0, 3)
    aa = [KEYDOM.build('a', {'a': v}) for v in (a0, a1, a2)][:n]
    rows = list(zip(aa, [b0, b1, b2][:n]))
    columns = [('a', int), ('b', int)]
    stmt = sel([target(col('a'))], 't', distinct=True)
    cur, got, want = _run_both(stmt, rows, columns)
    if not same_rows(got, want.rows):
        return 'distinct'
    return 'ok'


@cond('C03.limit', quick=120,
      bounds='<=3 rows of one symbolic int column; LIMIT n with n symbolic in 0..6',
      symbolic='row count, cells, n')
def limit(rows: List[Tuple[Optional[int]]], n: int) -> str:
    assume(len(rows) <= 3 and 0 <= n <= 6)
    columns = [('a', int)]
    stmt = sel([target(col('a'))], 't', limit=n)
    cur, got, want = _run_both(stmt, rows, columns)
    if not same_rows(got, [tuple(r) for r in rows][:n]):
        return 'limit'
    if not same_rows(got, want.rows):
        return 'limit-oracle'
    cover('cut' if n < len(rows) else 'all')
    return 'ok'


_AVAL = {'null': None, '0': 0, '1': 1}


def make_apply_order(nrows, quick, thorough, null_b=True, fixed=(), desc=None):
    """`fixed` (labels for the first a cells) and `desc` split the path tree of the larger instances over several
    conditions, one core each; together the conditions of a family cover the whole domain."""
    params = {}
    for i in range(nrows):
        if i >= len(fixed):
            params[f'a{i}'] = int
        params[f'b{i}'] = Optional[int] if null_b else int
    if desc is None:
        params['desc'] = bool
    params['n'] = int
    suffix = (('' if null_b else '.nonnull-b') + ''.join(f'.a{i}={v}' for i, v in enumerate(fixed))
              + ('' if desc is None else f'.{"desc" if desc else "asc"}'))

    @cond(f'C03.apply-order.{nrows}rows{suffix}', quick=quick, thorough=thorough,
          bounds=f'{nrows} rows (a in {{NULL,0,1}} enumerated, b symbolic int{" or NULL" if null_b else ""}); SELECT DISTINCT a '
                 f'ORDER BY b [DESC] LIMIT n, n in 0..{nrows}: sort, then project, then dedup, then cut'
                 + ''.join(f'; a{i}={v}' for i, v in enumerate(fixed))
                 + ('' if desc is None else f'; direction {"DESC" if desc else "ASC"}'),
          symbolic='b cells, direction, n', enumerated='a cells', params=params, group='C03.apply-order')
    def apply_order(n, desc=desc, **kw):
        assume(0 <= n <= nrows)
        rows = [(_AVAL[fixed[i]] if i < len(fixed) else KEYDOM.build(f'a{i}', kw), kw[f'b{i}']) for i in range(nrows)]
        columns = [('a', int), ('b', int)]
        order = [ast.OrderBy(col('b'), ast.Ordering.DESC if desc else ast.Ordering.ASC)]
        stmt = sel([target(col('a'))], 't', order_by=order, distinct=True, limit=n)
        cur, got, want = _run_both(stmt, rows, columns)
        if not same_rows(got, want.rows):
            return 'order-distinct-limit'
        if len(cur.description) != 1:
            return 'hidden-key-visible'
        return 'ok'


@cond('C03.distinct.ordered-by-visible', quick=180, thorough=600,
      bounds='3 rows x 2 columns (cells in {NULL, 0, 1}); SELECT DISTINCT a, b ORDER BY a [DESC] / ORDER BY b, a / ORDER BY 2: the sort '
             'keys are visible but do not determine the whole row, so equal rows need not be adjacent after the sort: later '
             'duplicates are still dropped',
      symbolic='(none)', enumerated='cells, ORDER BY form',
      params={**{f'{c}{i}': int for c in 'ab' for i in range(3)}, 'form': int}, group='C03.distinct')
def distinct_ordered_by_visible(form, **kw):
    rows = [(KEYDOM.build(f'a{i}', kw), KEYDOM.build(f'b{i}', kw)) for i in range(3)]
    columns = [('a', int), ('b', int)]
    order = pick([lambda: [ast.OrderBy(col('a'), ast.Ordering.ASC)], lambda: [ast.OrderBy(col('a'), ast.Ordering.DESC)],
                  lambda: [ast.OrderBy(col('b'), ast.Ordering.ASC), ast.OrderBy(col('a'), ast.Ordering.ASC)],
                  lambda: [ast.OrderBy(2, ast.Ordering.DESC)]], form)()
    stmt = sel([target(col('a')), target(col('b'))], 't', order_by=order, distinct=True)
    cur, got, want = _run_both(stmt, rows, columns)
    if len(set(got)) != len(got):
        return 'duplicate-row-in-a-distinct-result'
    if not same_rows(got, want.rows):
        return 'distinct-after-order'
    return 'ok'


def make_distinct_limit(nrows, quick, thorough):
    @cond(f'C03.distinct-limit.{nrows}rows', quick=quick, thorough=thorough,
          bounds=f'{nrows} rows (a in {{NULL,0,1}} enumerated); SELECT DISTINCT a [WHERE a IS NOT NULL] LIMIT n '
                 f'(no ORDER BY), n in 0..{nrows}: dedup, then cut',
          symbolic='n, WHERE presence', enumerated='a cells',
          params={**{f'a{i}': int for i in range(nrows)}, 'n': int, 'w': bool}, group='C03.apply-order')
    def distinct_limit(n, w, **kw):
        assume(0 <= n <= nrows)
        rows = [(KEYDOM.build(f'a{i}', kw),) for i in range(nrows)]
        columns = [('a', int)]
        stmt = sel([target(col('a'))], 't', distinct=True, limit=n,
                   where=ast.IsNotNull(col('a')) if w else None)
        cur, got, want = _run_both(stmt, rows, columns)
        if not same_rows(got, want.rows):
            return 'distinct-limit'
        return 'ok'


make_apply_order(2, 180, 360)
for _desc in (False, True):
    for _a0 in _AVAL:
        make_apply_order(3, 300, None, null_b=False, fixed=(_a0,), desc=_desc)
        for _a1 in _AVAL:
            make_apply_order(3, None, 900, fixed=(_a0, _a1), desc=_desc)
make_distinct_limit(2, 60, 120)
make_distinct_limit(3, 120, 240)
make_distinct_limit(4, None, 600)


def make_aggregate_order(nrows, quick, thorough):
    params = {}
    for i in range(nrows):
        params[f'k{i}'] = int
        params[f'v{i}'] = Optional[int]
    params['desc'] = bool
    params['hidden'] = bool

    @cond(f'C03.aggregate-order.{nrows}rows', quick=quick, thorough=thorough,
          bounds=f'{nrows} rows (k in {{NULL,0,1}} enumerated, v symbolic int or NULL); SELECT k GROUP BY k ORDER BY sum(v) '
                 '[DESC], and ORDER BY 2 over SELECT k, sum(v)',
          symbolic='v cells, direction, form bit', enumerated='k cells', params=params, group='C03.aggregate-order')
    def aggregate_order(desc, hidden, **kw):
        rows = [(KEYDOM.build(f'k{i}', kw), kw[f'v{i}']) for i in range(nrows)]
        columns = [('k', int), ('v', int)]
        direction = ast.Ordering.DESC if desc else ast.Ordering.ASC
        agg = func('sum', col('v'))
        if hidden:
            stmt = sel([target(col('k'))], 't', group_by=ast.GroupBy([col('k')], None),
                       order_by=[ast.OrderBy(agg, direction)])
        else:
            stmt = sel([target(col('k')), target(agg, 's')], 't', group_by=ast.GroupBy([1], None),
                       order_by=[ast.OrderBy(2, direction)])
        cur, got, want = _run_both(stmt, rows, columns)
        if not same_rows(got, want.rows):
            return 'aggregate-order'
        if len(cur.description) != (1 if hidden else 2):
            return 'hidden-key-visible'
        return 'ok'


make_aggregate_order(2, 120, 240)
make_aggregate_order(3, None, 900)


# ---------------------------------------------------------------------------
# C03.merge: an ORDER BY expression is merged with a target only when it is the same expression

def ledger_tables():
    """The Beancount-backed table classes with their column dictionaries."""
    import beanquery.sources.beancount as src
    from beanquery import query_env
    out = []
    for cls in src.TABLES:
        out.append((cls.name, cls))
    return out


def make_merge(tname, cls):
    names = list(cls.columns)
    if len(names) < 2:
        return

    @cond(f'C03.merge.{tname}', quick=120,
          bounds=f'table {tname}: every ordered pair of distinct columns (c1, c2) out of {len(names)}: '
                 f'SELECT c1 FROM #{tname} ORDER BY c2 must sort by c2 (compiled structure)',
          symbolic='(none)', enumerated='column pair through two selectors', group='C03.merge',
          params={'i': int, 'j': int})
    def merge(i, j):
        c1 = pick(names, i)
        c2 = pick(names, j)
        assume(c1 != c2)
        table = cls.__new__(cls)
        conn = connect(**{tname: table})
        stmt = sel([target(col(c1))], tname, order_by=[ast.OrderBy(col(c2), ast.Ordering.ASC)])
        query = conn.compile(stmt)
        (index, _), = query.order_spec
        key_expr = query.c_targets[index].c_expr
        if key_expr is not cls.columns[c2]:
            return 'order-key-merged-with-other-column'
        if len([t for t in query.c_targets if t.name is not None]) != 1:
            return 'visible-targets'
        return 'ok'


for _name, _cls in ledger_tables():
    make_merge(_name, _cls)


def _txn(payee, narration, day):
    from beancount.core import data
    return data.Transaction({'filename': 'f', 'lineno': day}, datetime.date(2020, 1, day), '*', payee, narration,
                            frozenset(), frozenset(), [])


@cond('C03.merge.rows.transactions', quick=120,
      bounds='#transactions with 2 transactions, payee and narration each from {"a","b"}; SELECT payee ORDER BY narration '
             '[DESC] and SELECT narration ORDER BY payee',
      symbolic='selector bits for the four strings, direction, which pair', enumerated='-')
def merge_rows_transactions(p0: bool, p1: bool, n0: bool, n1: bool, desc: bool, swap: bool) -> str:
    import beanquery.sources.beancount as src
    strs = lambda b: 'b' if b else 'a'  # noqa: E731
    entries = [_txn(strs(p0), strs(n0), 1), _txn(strs(p1), strs(n1), 2)]
    table = src.TransactionsTable(entries, {})
    conn = connect(transactions=table)
    shown, key = ('narration', 'payee') if swap else ('payee', 'narration')
    stmt = sel([target(col(shown))], 'transactions',
               order_by=[ast.OrderBy(col(key), ast.Ordering.DESC if desc else ast.Ordering.ASC)])
    got = conn.execute(stmt).fetchall()
    rows = [(e.payee, e.narration) for e in entries]
    columns = [('payee', str), ('narration', str)]
    want = refsem.Ref({'transactions': (columns, rows)}).select(stmt)
    if not same_rows(got, want.rows):
        return 'order-by-other-column'
    return 'ok'


@cond('C03.limit.after-having', quick=120, thorough=400,
      bounds='3 rows (k in {NULL,0,1} enumerated, v symbolic int); SELECT k, sum(v) GROUP BY k HAVING sum(v) > 0 LIMIT n (n in 0..3, no '
             'ORDER BY): the cut keeps the first min(n, size) rows of the result that HAVING leaves',
      symbolic='v cells', enumerated='k cells, n', params={**{f'k{i}': int for i in range(3)}, **{f'v{i}': int for i in range(3)}, 'n': int},
      group='C03.apply-order')
def limit_after_having(n, **kw):
    n = enum_int(n, 0, 3)
    rows = [(KEYDOM.build(f'k{i}', kw), kw[f'v{i}']) for i in range(3)]
    columns = [('k', int), ('v', int)]
    having = ast.Greater(func('sum', col('v')), const(0))
    stmt = sel([target(col('k')), target(func('sum', col('v')), 's')], 't', group_by=ast.GroupBy([1], having), limit=n)
    cur, got, want = _run_both(stmt, rows, columns)
    full = refsem.Ref({'t': (columns, rows)}).select(sel([target(col('k')), target(func('sum', col('v')), 's')], 't',
                                                         group_by=ast.GroupBy([1], having))).rows
    if len(got) != min(n, len(full)):
        return 'limit-counts-rows-that-having-rejects'
    if not same_rows(got, want.rows):
        return 'rows'
    return 'ok'


@cond('C03.distinct.equal-hashes', quick=120,
      bounds='3 rows x 2 columns with cells from {-1, -2, 0, NULL} (hash(-1) == hash(-2)), as int or decimal; SELECT DISTINCT a, b [ORDER BY '
             'b]: only identical rows are dropped',
      symbolic='(none)', enumerated='cells, int / decimal, ORDER BY presence',
      params={**{f'{c}{i}': int for c in 'ab' for i in range(3)}, 'dec': bool, 'order': bool}, group='C03.distinct')
def distinct_equal_hashes(dec, order, **kw):
    import decimal
    palette = [-1, -2, 0, None]
    conv = (lambda v: None if v is None else decimal.Decimal(v)) if dec else (lambda v: v)
    rows = [(conv(pick(palette, kw[f'a{i}'])), conv(pick(palette[:2], kw[f'b{i}']))) for i in range(3)]
    columns = [('a', decimal.Decimal if dec else int), ('b', decimal.Decimal if dec else int)]
    stmt = sel([target(col('a')), target(col('b'))], 't', distinct=True,
               order_by=[ast.OrderBy(col('b'), ast.Ordering.ASC)] if order else None)
    cur, got, want = _run_both(stmt, rows, columns)
    if not same_rows(got, want.rows):
        return 'distinct-drops-a-row-that-is-not-a-duplicate'
    return 'ok'
