"""C07 - Result shape and naming: only the selected targets, in order, named by rule."""

import datetime
from typing import List, Optional, Tuple

import beanquery
from beanquery.parser import ast

from .. import refsem, sym
from ..h import cond, assume, cover, pick, enum_int, native
from ..printer import sel, col, const, target, func, select as print_select, expr as print_expr
from ..tables import HTable, connect, parse, parse_fresh, execute
from .c01 import same, same_rows
from .c03 import KEYDOM

COLUMNS = [('a', int), ('b', int), ('k', int)]


def _rows(kw, n=2):
    return [(kw[f'a{i}'], kw[f'b{i}'], KEYDOM.build(f'k{i}', kw)) for i in range(n)]


def _params(n=2):
    p = {}
    for i in range(n):
        p[f'a{i}'] = Optional[int]
        p[f'b{i}'] = Optional[int]
        p[f'k{i}'] = int
    return p


# ---------------------------------------------------------------------------
# C07.shape

PLAIN_TARGETS = [lambda: target(col('a')), lambda: target(col('b')), lambda: target(ast.Add(col('a'), col('b')), 's')]
PLAIN_ORDER = [
    None,
    lambda: [ast.OrderBy(col('b'), ast.Ordering.ASC)],
    lambda: [ast.OrderBy(ast.Mul(col('a'), const(2)), ast.Ordering.DESC)],
    lambda: [ast.OrderBy(col('b'), ast.Ordering.DESC), ast.OrderBy(ast.Neg(col('a')), ast.Ordering.ASC)],
    lambda: [ast.OrderBy(col('k'), ast.Ordering.ASC), ast.OrderBy(1, ast.Ordering.DESC)],
]


def make_shape_plain(v):
    @cond(f'C07.shape.plain.{v}targets', quick=180, thorough=600,
          bounds=f'2 rows (a, b symbolic ints or NULL, k in {{NULL,0,1}}); {v} visible target(s) out of (a, b, a + b AS s); '
                 'ORDER BY with 0..2 keys that are new (hidden) or equal to a visible target',
          symbolic='a, b cells', enumerated='k cells; ORDER BY form (selector)',
          params={**_params(), 'order': int}, group='C07.shape')
    def shape_plain(order, **kw):
        rows = _rows(kw)
        targets = [t() for t in PLAIN_TARGETS[:v]]
        ob = pick(PLAIN_ORDER, order)
        stmt = sel(targets, 't', order_by=ob() if ob else None)
        conn = connect(t=HTable('t', COLUMNS, rows))
        desc, got = execute(conn, stmt)
        want = refsem.Ref({'t': (COLUMNS, rows)}).select(stmt)
        if len(desc) != v:
            return 'description-length'
        if [c.name for c in desc] != want.names:
            return 'names'
        for r in got:
            if len(r) != v:
                return 'row-length'
        if not same_rows(got, want.rows):
            return 'visible-cells'
        return 'ok'


for _v in (1, 2, 3):
    make_shape_plain(_v)


AGG_TARGETS = [lambda: target(col('k')), lambda: target(func('sum', col('a')), 's'),
               lambda: target(func('count', ast.Asterisk()), 'n')]
AGG_GROUP = [
    lambda: ast.GroupBy([col('k')], None),
    lambda: ast.GroupBy([1], None),
    lambda: ast.GroupBy([col('k'), ast.IsNull(col('b'))], None),                                   # + hidden key
    lambda: ast.GroupBy([col('k')], ast.Greater(func('count', col('b')), const(0))),               # + hidden HAVING
    lambda: ast.GroupBy([col('k'), ast.IsNull(col('b'))], ast.GreaterEq(func('count', ast.Asterisk()), const(1))),
]
AGG_ORDER = [
    None,
    lambda: [ast.OrderBy(func('max', col('b')), ast.Ordering.DESC)],                               # hidden aggregate
    lambda: [ast.OrderBy(col('k'), ast.Ordering.DESC)],
    lambda: [ast.OrderBy(func('max', col('b')), ast.Ordering.ASC), ast.OrderBy(1, ast.Ordering.ASC)],
]


def make_shape_agg(v):
    @cond(f'C07.shape.aggregate.{v}targets', quick=240, thorough=900,
          bounds=f'2 rows; {v} visible target(s) out of (k, sum(a) AS s, count(*) AS n); GROUP BY adding 0..1 hidden keys, '
                 'HAVING adding a hidden aggregate, ORDER BY adding 0..1 hidden aggregates',
          symbolic='a, b cells', enumerated='k cells; GROUP BY / HAVING / ORDER BY forms (selectors)',
          params={**_params(), 'group': int, 'order': int}, group='C07.shape')
    def shape_agg(group, order, **kw):
        rows = _rows(kw)
        targets = [t() for t in AGG_TARGETS[:v]]
        gb = pick(AGG_GROUP, group)()
        ob = pick(AGG_ORDER, order)
        stmt = sel(targets, 't', group_by=gb, order_by=ob() if ob else None)
        conn = connect(t=HTable('t', COLUMNS, rows))
        desc, got = execute(conn, stmt)
        want = refsem.Ref({'t': (COLUMNS, rows)}).select(stmt)
        if len(desc) != v:
            return 'description-length'
        if [c.name for c in desc] != want.names:
            return 'names'
        for r in got:
            if len(r) != v:
                return 'row-length'
        if not same_rows(got, want.rows):
            return 'visible-cells'
        return 'ok'


for _v in (1, 2, 3):
    make_shape_agg(_v)


def make_shape_limit(v):
    @cond(f'C07.shape.limit.{v}targets', quick=240, thorough=600,
          bounds=f'2 rows (a symbolic int, b symbolic int or NULL, k in {{NULL,0,1}}); aggregate query with {v} visible target(s) '
                 '(sum(a) AS s | k, count(*) AS n), GROUP BY / HAVING forms adding 0..2 hidden targets, no ORDER BY or ORDER BY a '
                 'hidden aggregate, LIMIT 0..2 or none, DISTINCT or not: hidden targets never reach description or rows '
                 'whichever combination of the later clauses is present',
          symbolic='a, b cells', enumerated='k cells; GROUP BY / HAVING form, ORDER BY presence, LIMIT, DISTINCT (selectors)',
          params={'a0': int, 'a1': int, 'b0': Optional[int], 'b1': Optional[int], 'k0': int, 'k1': int,
                  'group': int, 'order': bool, 'lim': int, 'distinct': bool}, group='C07.shape')
    def shape_limit(group, order, lim, distinct, **kw):
        rows = _rows(kw)
        targets = [target(func('sum', col('a')), 's')] if v == 1 else [target(col('k')), target(func('count', ast.Asterisk()), 'n')]
        # GROUP BY 1 would name the aggregate target when it is the only one (rightly rejected)
        gb = pick(AGG_GROUP if v == 2 else AGG_GROUP[:1] + AGG_GROUP[2:], group)()
        lim = enum_int(lim, 0, 3)
        stmt = sel(targets, 't', group_by=gb, order_by=AGG_ORDER[1]() if order else None,
                   limit=None if lim == 3 else lim, distinct=bool(distinct))
        conn = connect(t=HTable('t', COLUMNS, rows))
        desc, got = execute(conn, stmt)
        want = refsem.Ref({'t': (COLUMNS, rows)}).select(stmt)
        if len(desc) != v:
            return 'description-length'
        if [c.name for c in desc] != want.names:
            return 'names'
        for r in got:
            if len(r) != v:
                return 'row-length'
        if order:
            if not same_rows(got, want.rows):
                return 'visible-cells'
        else:
            # without ORDER BY the order of the groups is not part of the claim: any order of the (at most two) groups, cut
            n = len(want.rows)
            full = refsem.Ref({'t': (COLUMNS, rows)}).select(
                sel(targets, 't', group_by=gb, distinct=bool(distinct))).rows
            if not (same_rows(got, full[:n]) or same_rows(got, full[::-1][:n])):
                return 'visible-cells'
        return 'ok'


for _v in (1, 2):
    make_shape_limit(_v)


@cond('C07.shape.empty-result', quick=120,
      bounds='result sets without rows: an empty table, a WHERE condition that is never true, LIMIT 0, a HAVING condition that rejects '
             'every group; for a plain, an aggregate, a wildcard and a subquery statement, through Connection.execute and through a '
             're-used cursor: the description still lists exactly the SELECT targets, in order',
      symbolic='(none)', enumerated='way of being empty, statement form, cursor re-use',
      params={'why': int, 'form': int, 'reuse': bool})
def shape_empty_result(why, form, reuse):
    why, form = enum_int(why, 0, 3), enum_int(form, 0, 3)
    rows = [] if why == 0 else [(1, 2, 0), (None, 3, 1)]
    never = ast.And([ast.IsNull(col('a')), ast.IsNotNull(col('a'))])
    where = never if why == 1 else None
    limit = 0 if why == 2 else None
    having = ast.Less(func('count', ast.Asterisk()), const(0)) if why == 3 else None
    if why == 3 and form != 1:
        assume(False)
    if form == 0:
        stmt, names = sel([target(col('b')), target(ast.Add(col('a'), col('b')), 's'), target(col('a'))], 't', where=where, limit=limit,
                          order_by=[ast.OrderBy(col('k'), ast.Ordering.ASC)]), ['b', 's', 'a']
    elif form == 1:
        stmt, names = sel([target(col('k')), target(func('sum', col('a')), 's')], 't', where=where, limit=limit,
                          group_by=ast.GroupBy([col('k'), ast.IsNull(col('b'))], having)), ['k', 's']
    elif form == 2:
        stmt, names = sel(ast.Asterisk(), 't', where=where, limit=limit), ['a', 'b', 'k']
    else:
        inner = sel([target(col('b'), 'y'), target(col('a'), 'x')], 't', where=where, limit=limit)
        stmt, names = sel(ast.Asterisk(), from_clause=inner), ['y', 'x']
    conn = connect(t=HTable('t', COLUMNS, rows))
    cur = conn.cursor()
    if reuse:
        cur.execute(sel([target(col('a'))], 't'))      # an earlier statement on the same cursor
    cur.execute(stmt)
    if cur.description is None:
        return 'no-description-for-an-empty-result'
    if [c.name for c in cur.description] != names:
        return 'names'
    if cur.fetchall() != []:
        return 'rows'
    return 'ok'


@cond('C07.shape.duplicate-group-key', quick=120,
      bounds='2 rows (a, b symbolic ints or NULL, k in {NULL,0,1}); SELECT k, b IS NULL AS z, count(*) AS n GROUP BY with the first key '
             'named twice (1, k, z / k, k, 2 / 1, 1, z): each row holds the values of its own targets, in order',
      symbolic='a, b cells', enumerated='k cells, GROUP BY spelling', params={**_params(), 'form': int})
def shape_duplicate_group_key(form, **kw):
    rows = _rows(kw)
    gb = pick([lambda: [1, col('k'), col('z')], lambda: [col('k'), col('k'), 2], lambda: [1, 1, col('z')]], form)()
    stmt = sel([target(col('k')), target(ast.IsNull(col('b')), 'z'), target(func('count', ast.Asterisk()), 'n')], 't',
               group_by=ast.GroupBy(gb, None))
    desc, got = execute(connect(t=HTable('t', COLUMNS, rows)), stmt)
    want = refsem.Ref({'t': (COLUMNS, rows)}).select(stmt)
    if [c.name for c in desc] != ['k', 'z', 'n']:
        return 'names'
    for r in got:
        if len(r) != 3 or not (r[1] is True or r[1] is False):
            return 'value-under-the-wrong-target'
    if not same_rows(got, want.rows):
        return 'visible-cells'
    return 'ok'


SPELLINGS = [('sum(b)', 'SUM(b)'), ('a * 2', 'a*2'), ("'s'", '"s"'), ('1.0', '1.00'), ('1', 'TRUE'), ('(a) + 1', 'a + 1'),
             ('a IS NULL', 'a is null')]


@cond('C07.star.subquery-aliases', quick=60,
      bounds='SELECT * FROM (SELECT a AS <alias>, b AS other, k AS <alias2> FROM #t) for aliases with a leading / trailing underscore, '
             'digits, upper case, a single character, a keyword look-alike: every inner output column, in order',
      symbolic='(none)', enumerated='alias pair', params={'i': int, 'j': int})
def star_subquery_aliases(i, j):
    aliases = ['_year', 'year_', '__', 'x1', 'Total', 'q', 'selected', '_']
    a1, a2 = pick(aliases, i), pick(aliases, j)
    assume(a1.lower() != a2.lower())

    def run():
        conn = connect(t=HTable('t', COLUMNS, [(1, 2, 0)]))
        cur = conn.execute(f'SELECT * FROM (SELECT a AS {a1}, b AS other, k AS {a2} FROM #t)')
        if [c.name for c in cur.description] != [a1.lower(), 'other', a2.lower()]:     # (identifiers are lower-cased by the parser)
            return f'wildcard-over-subquery-columns: {[c.name for c in cur.description]}'
        if cur.fetchall() != [(1, 2, 0)]:
            return 'rows'
        return 'ok'
    return native(run)


@cond('C07.name.cursor-reuse', quick=60,
      bounds=f'one cursor executing SELECT <e1> FROM #t and then SELECT <e2> FROM #t where e1, e2 are spellings of equal trees '
             f'({SPELLINGS}), in either order: each result is named by the exact source text of its own statement and holds its own value',
      symbolic='(none)', enumerated='spelling pair, order', params={'i': int, 'swap': bool})
def name_cursor_reuse(i, swap):
    e1, e2 = pick(SPELLINGS, i)
    if swap:
        e1, e2 = e2, e1

    def run():
        conn = connect(t=HTable('t', COLUMNS, [(1, 2, 0)]))
        cur = conn.cursor()
        for e in (e1, e2, e1):
            text = f'SELECT {e} FROM #t'
            cur.execute(text)
            fresh = connect(t=HTable('t', COLUMNS, [(1, 2, 0)])).execute(text)
            if [c.name for c in cur.description] != [e]:
                return f'named-{cur.description[0].name!r}-instead-of-the-source-text-{e!r}'
            got, want = cur.fetchall(), fresh.fetchall()
            if [tuple(repr(x) for x in r) for r in got] != [tuple(repr(x) for x in r) for r in want]:
                return 'value-of-the-earlier-statement'
        return 'ok'
    return native(run)


@cond('C07.shape.duplicates', quick=120,
      bounds='2 rows; SELECT a, a, b AS a, a + 1 AS b: duplicate names are allowed and preserved, positions keep their own values',
      symbolic='cells', params=_params())
def shape_duplicates(**kw):
    rows = _rows(kw)
    stmt = sel([target(col('a')), target(col('a')), target(col('b'), 'a'), target(ast.Add(col('a'), const(1)), 'b')], 't')
    conn = connect(t=HTable('t', COLUMNS, rows))
    desc, got = execute(conn, stmt)
    if [c.name for c in desc] != ['a', 'a', 'a', 'b']:
        return 'names'
    want = [(a, a, b, None if a is None else a + 1) for a, b, _ in rows]
    if not same_rows(got, want):
        return 'cells'
    return 'ok'


# ---------------------------------------------------------------------------
# C07.star

def _expected_star():
    """Default columns of every table kind, written from the documentation of the tables."""
    from beancount.core import data
    fields = lambda cls, renames=None: [(renames or {}).get(f, f) for f in cls._fields if f != 'meta']  # noqa: E731
    return {
        'postings': ['date', 'flag', 'payee', 'narration', 'position'],
        'transactions': [f for f in fields(data.Transaction) if f != 'postings'],
        'prices': fields(data.Price),
        'balances': fields(data.Balance, {'diff_amount': 'discrepancy'}),
        'notes': fields(data.Note),
        'events': fields(data.Event),
        'documents': fields(data.Document),
        'accounts': ['account', 'open', 'close'],
        # accounts and commodities declare no narrower default set: all columns, declaration order
        'commodities': ['meta'] + fields(data.Commodity, {'currency': 'name'}),
    }


def _ledger_conn():
    import beanquery.sources.beancount  # noqa: F401
    return beanquery.connect('beancount:', entries=[], errors=[], options={'dcontext': None})


@cond('C07.star.tables', quick=60,
      bounds='SELECT * on every Beancount-backed table (empty ledger): the description lists the default columns in '
             'declaration order',
      symbolic='(none)', enumerated='table (selector)', params={'t': int})
def star_tables(t):
    import beancount.parser.options
    expected = _expected_star()
    conn = native(beanquery.connect, 'beancount:', entries=[], errors=[],
                  options=beancount.parser.options.OPTIONS_DEFAULTS.copy())
    name = pick(sorted(expected), t)
    query = conn.compile(sel(ast.Asterisk(), name))
    names = [tg.name for tg in query.c_targets if tg.name is not None]
    if names != expected[name]:
        return 'star-columns'
    if name == 'postings':
        # entries: every declared column, in declaration order
        q2 = conn.compile(sel(ast.Asterisk(), 'entries'))
        if [tg.name for tg in q2.c_targets] != list(conn.tables['entries'].columns):
            return 'star-entries'
    return 'ok'


@cond('C07.star.harness', quick=120,
      bounds='2 rows; SELECT * FROM #t and SELECT * FROM (SELECT b, a + 1 AS z, k FROM #t): all columns, declaration order',
      symbolic='cells', params={**_params(), 'sub': bool})
def star_harness(sub, **kw):
    rows = _rows(kw)
    conn = connect(t=HTable('t', COLUMNS, rows))
    if sub:
        inner = sel([target(col('b')), target(ast.Add(col('a'), const(1)), 'z'), target(col('k'))], 't')
        desc, got = execute(conn, sel(ast.Asterisk(), from_clause=inner))
        want_names = ['b', 'z', 'k']
        want = [(b, None if a is None else a + 1, k) for a, b, k in rows]
    else:
        desc, got = execute(conn, sel(ast.Asterisk(), 't'))
        want_names = ['a', 'b', 'k']
        want = rows
    if [c.name for c in desc] != want_names:
        return 'star-columns'
    if not same_rows(got, want):
        return 'star-rows'
    return 'ok'


# ---------------------------------------------------------------------------
# C07.name

NAME_EXPRS = [
    ('a + b', False), ('(a + b) * 2', False), ('-a', False), ('coalesce(a, b)', False), ('a IS NULL', False),
    ('sum(a)', True), ('a + b * k', False), ('NOT a > b', False), ('a BETWEEN 1 AND b', False), ("length('x y')", False),
    ('a IN (1, 2)', False), ('count(*)', True), ('sum(a) / count(b)', True), ('a%2', False), ('a  +  b', False),
]
PADS = ['', ' ', '\n', '\t', '  ', ' \n ']
COMMENTS = ['/* c */', ' /* c */ ']


def _compiled_names(conn, text):
    query = native(conn.compile, parse_fresh(text))
    if hasattr(query, 'query'):
        query = query.query
    return [t.name for t in query.c_targets if t.name is not None]


def make_name(k):
    etext, agg = NAME_EXPRS[k]

    @cond(f'C07.name.expr{k}', quick=60,
          bounds=f'target "{etext}" with paddings from {PADS!r} (and block comments) before / after the expression and '
                 'before AS, the comma and FROM; with and without alias; as first and as second target',
          symbolic='(none)', enumerated='padding selectors, alias bit, position bit',
          params={'p1': int, 'p2': int, 'alias': bool, 'second': bool, 'comment': int}, group='C07.name')
    def name_cond(p1, p2, alias, second, comment):
        pad1, pad2 = pick(PADS, p1), pick(PADS, p2)
        cm = pick([None] + COMMENTS, comment)
        if cm is not None:
            pad2 = cm
        piece = pad1 + etext + pad2
        if alias:
            piece += ' AS zz'
        first = 'k, ' if second and not agg else ''
        text = f'SELECT {first}{piece} FROM #t' + ('' if not (agg and second) else '')
        conn = connect(t=HTable('t', COLUMNS, []))
        names = _compiled_names(conn, text)
        name = names[-1]
        if alias:
            return 'ok' if name == 'zz' else 'alias'
        if name != name.strip():
            return 'whitespace-around-name'
        if name not in text:
            return 'not-a-slice-of-the-statement'
        if cm is None:
            if name != etext:
                return 'not-the-exact-source-text'
        else:
            if not name.startswith(etext):
                return 'does-not-contain-expression-text'
        # the name parses back to the same expression
        back = native(beanquery.parser.parse, 'SELECT ' + name).targets[0].expression
        orig = native(beanquery.parser.parse, 'SELECT ' + etext).targets[0].expression
        if back != orig:
            return 'name-does-not-parse-back'
        return 'ok'


for _k in range(len(NAME_EXPRS)):
    make_name(_k)


@cond('C07.name.column-case', quick=60,
      bounds='bare column targets written in any letter case (a, A, b, B, k, K) -> lower-cased column name; aliases kept as '
             'written in lower case',
      symbolic='(none)', enumerated='spelling selector', params={'i': int})
def name_column_case(i):
    spelling = pick(['a', 'A', 'b', 'B', 'k', 'K'], i)
    conn = connect(t=HTable('t', COLUMNS, []))
    names = _compiled_names(conn, f'SELECT {spelling}, {spelling} AS Zed FROM #t')
    if names != [spelling.lower(), 'zed']:
        return 'column-name'
    return 'ok'


LEDGER_NAMES = ['entry.date', 'position.units.currency', 'entry.meta', "meta['k']", 'position.cost.number',
                'units(position).currency', "entry.meta['x']"]


@cond('C07.name.ledger', quick=60,
      bounds=f'unaliased attribute / subscript targets on #postings: {LEDGER_NAMES}: named by their exact source text',
      symbolic='(none)', enumerated='expression selector, padding', params={'i': int, 'p': int})
def name_ledger(i, p):
    import beancount.parser.options
    etext = pick(LEDGER_NAMES, i)
    pad = pick(PADS, p)
    conn = native(beanquery.connect, 'beancount:', entries=[], errors=[],
                  options=beancount.parser.options.OPTIONS_DEFAULTS.copy())
    names = _compiled_names(conn, f'SELECT account,{pad}{etext}{pad} FROM #postings')
    if names != ['account', etext]:
        return 'attribute-target-name'
    return 'ok'


@cond('C07.name.placeholder', quick=60,
      bounds='unaliased placeholder targets (%s, %(x)s): named by their source text; rows keep one value per column',
      symbolic='parameter values', params={'v': Optional[int], 'w': Optional[int], 'named': bool})
def name_placeholder(v, w, named):
    conn = connect(t=HTable('t', COLUMNS, [(1, 2, 0)]))
    if named:
        text, params, want = 'SELECT %(x)s, %(y)s, a FROM #t', {'x': v, 'y': w}, ['%(x)s', '%(y)s', 'a']
    else:
        text, params, want = 'SELECT %s, %s, a FROM #t', (v, w), ['%s', '%s', 'a']
    cur = conn.cursor()
    cur.execute(parse_fresh(text), params)
    if [c.name for c in cur.description] != want:
        return 'placeholder-target-name'
    rows = cur.fetchall()
    if len(rows) != 1 or len(rows[0]) != 3 or not same_rows(rows, [(v, w, 1)]):
        return 'row-shape'
    return 'ok'


STAR_INNERS = [
    (lambda: sel([target(col('a'))], 't'), ['a']),
    (lambda: sel([target(col('b')), target(col('a'))], 't'), ['b', 'a']),
    (lambda: sel([target(col('a')), target(col('b'))], 't'), ['a', 'b']),
    (lambda: sel([target(col('k'), 'x'), target(col('b'), 'y'), target(col('a'))], 't'), ['x', 'y', 'a']),
    (lambda: sel([target(func('sum', col('a')), 'total'), target(col('k'))], 't', group_by=ast.GroupBy([col('k')], None)),
     ['total', 'k']),
]


@cond('C07.star.subquery-history', quick=180,
      bounds='2 rows; SELECT * FROM (inner_i) then SELECT * FROM (inner_j) in one process for inner queries with different '
             'output names / order / count: each description lists exactly that inner query\'s outputs in its order and '
             'every row has one value per column',
      symbolic='a, b cells', enumerated='the two inner queries (selectors)', params={**_params(), 'i': int, 'j': int})
def star_subquery_history(i, j, **kw):
    rows = _rows(kw)
    conn = connect(t=HTable('t', COLUMNS, rows))
    for idx in (i, j):
        make, names = pick(STAR_INNERS, idx)
        desc, got = execute(conn, sel(ast.Asterisk(), from_clause=make()))
        if [c.name for c in desc] != names:
            return 'star-of-subquery-columns'
        _, inner_rows = execute(conn, make())
        if not same_rows(got, inner_rows):
            return 'star-of-subquery-rows'
    return 'ok'
