"""C14 - BALANCES / JOURNAL / PRINT equal their SELECT expansions; PRINT is lossless."""

import datetime
import decimal
import io
import re
import textwrap

import beanquery
from beancount import loader
from beancount.core import amount, convert, data, inventory, position
from beancount.core.account_types import get_account_sort_key
from beancount.parser import options as bc_options
from beanquery import query_execute
from beanquery.parser import ast

from .. import sym, ledger
from ..h import cond, assume, cover, pick, enum_int, native
from ..printer import sel, col, const, target, func
from ..tables import parse, execute
from .c12 import PATTERNS, PRICES, inv_sum

D = decimal.Decimal
A = amount.Amount
ACCOUNTS = ['Assets:Bank', 'Liabilities:Card', 'Income:Salary', 'Expenses:Food', 'Equity:Opening', 'Assets:Broker:Sub']
SUMMARY = {None: lambda pos: pos, 'units': lambda pos: position.Position(pos.units, None),
           'cost': lambda pos: position.Position(convert.get_cost(pos), None)}
FUNC_OF = {None: lambda inv: inv, 'units': lambda inv: inv.reduce(convert.get_units), 'cost': lambda inv: inv.reduce(convert.get_cost)}


def build(pattern, flags, accs):
    posts = []
    for i, ((units, cost), flag, acc) in enumerate(zip(pattern, flags, accs)):
        posts.append(data.Posting(acc, units, cost, None, '!' if flag else None, ledger.meta(i + 1)))
    txns = [ledger.txn(datetime.date(2019, 2, 10), posts[:2], payee='Shop', narration='first', lineno=1),
            ledger.txn(datetime.date(2020, 3, 11), posts[2:], payee=None, narration='second ' + 'x' * 90, flag='!', lineno=2)]
    return PRICES + txns, txns


def _conn(entries):
    import beanquery.sources.beancount as src
    conn = beanquery.Connection()
    options = ledger.default_options()
    for cls in src.TABLES:
        if cls.name in ('postings', 'prices', 'entries', 'accounts'):
            conn.tables[cls.name] = cls(entries, options)
    return conn


PARAMS = {'pat': int, 'f0': bool, 'f1': bool, 'f2': bool, 'a0': int, 'a1': int, 'a2': int}


C14_PATTERNS = [PATTERNS[0], PATTERNS[1], PATTERNS[-1], PATTERNS[2]]     # [-1]: a lot held at zero cost


def _setup(kw):
    pattern = pick(C14_PATTERNS, kw['pat'])
    flags = [True if kw.get(f'f{i}') else False for i in range(3)]
    accs = [pick(ACCOUNTS, kw[f'a{i}']) for i in range(3)]
    return build(pattern, flags, accs)


FROMS = [(None, lambda t: True), ('year = 2019', lambda t: t.date.year == 2019), ("flag = '*'", lambda t: t.flag == '*')]


def make_balances(fname):
    @cond(f'C14.balances.{fname or "plain"}', quick=300, thorough=900,
          bounds='3 postings (3 amount / lot patterns, one with a lot held at zero cost) on accounts chosen among 6 over the five root types (3 x 3 assignments), in 2 transactions; '
                 f'BALANCES {"AT " + fname if fname else ""} [FROM year = 2019 | flag = "*"] [WHERE posting_flag = "!"]: one row per '
                 'account with the inventory sum, ordered by account type then name; equal to the SELECT expansion',
          symbolic='posting selection bits, presence of WHERE', enumerated='amount pattern, accounts, FROM form',
          params={'pat': int, 'f0': bool, 'f1': bool, 'a0': int, 'a1': int, 'where': bool, 'frm': int}, group='C14.balances')
    def balances(where, frm, **kw):
        kw = dict(kw, pat=enum_int(kw['pat'], 0, 2), a0=enum_int(kw['a0'], 0, 2), a1=enum_int(kw['a1'], 3, 5), a2=0, f2=True)
        entries, txns = _setup(kw)
        conn = _conn(entries)
        ftext, fpred = pick(FROMS, frm)
        text = 'BALANCES' + (f' AT {fname}' if fname else '') + (f' FROM {ftext}' if ftext else '') + \
               (" WHERE posting_flag = '!'" if where else '')
        desc, rows = execute(conn, parse(text))
        per_account = {}
        for t in txns:
            if not fpred(t):
                continue
            for p in t.postings:
                if where and p.flag != '!':
                    continue
                per_account.setdefault(p.account, inventory.Inventory()).add_position(position.Position(p.units, p.cost))
        types = bc_options.get_account_types(ledger.default_options())
        want = [(acc, FUNC_OF[fname](inv)) for acc, inv in sorted(per_account.items(),
                                                                    key=lambda kv: get_account_sort_key(types, kv[0]))]
        if [tuple(r) for r in rows] != want:
            return 'balances-rows'
        inner = f'{fname}(position)' if fname else 'position'
        select = f'SELECT account, sum({inner})' + (f' FROM {ftext}' if ftext else '') + \
                 (" WHERE posting_flag = '!'" if where else '') + ' GROUP BY account, account_sortkey(account) ORDER BY account_sortkey(account)'
        desc2, rows2 = execute(conn, parse(select))
        if rows2 != rows:
            return 'differs-from-select-expansion'
        # (the names differ by the letter case of the template's keywords only)
        if [c.datatype for c in desc] != [c.datatype for c in desc2] or len(desc) != 2 or desc[0].name != 'account':
            return 'description'
        return 'ok'


for _f in (None, 'units', 'cost'):
    make_balances(_f)


REGEXES = [None, 'bank', '^Expenses:', 'Card|Salary', r'Assets:\w+$', 'Nothing', 'Assets:Broker', 'Liabilities:Card']


def make_journal(fname):
    @cond(f'C14.journal.{fname or "plain"}', quick=300, thorough=900,
          bounds=f'same ledgers; JOURNAL [regex from {REGEXES}] {"AT " + fname if fname else ""} [FROM ...]: the register (date, flag, '
                 'payee and narration cut to 48 / 80 columns, account, position, running balance) of the postings whose account '
                 'matches the regular expression (case-insensitive search)',
          symbolic='(posting flags unused) FROM form', enumerated='amount pattern, accounts, regex, FROM form',
          params={'pat': int, 'a0': int, 'a1': int, 'rx': int, 'frm': int}, group='C14.journal')
    def journal(rx, frm, **kw):
        kw = dict(kw, pat=enum_int(kw['pat'], 0, 2), a0=enum_int(kw['a0'], 0, 2), a1=enum_int(kw['a1'], 3, 5), a2=0)
        entries, txns = _setup(kw)
        conn = _conn(entries)
        regex = pick(REGEXES, rx)
        ftext, fpred = pick(FROMS, frm)
        text = 'JOURNAL' + (f" '{regex}'" if regex else '') + (f' AT {fname}' if fname else '') + (f' FROM {ftext}' if ftext else '')
        desc, rows = execute(conn, parse(text))
        running = inventory.Inventory()
        want = []
        for t in txns:
            if not fpred(t):
                continue
            for p in t.postings:
                if regex and not re.search(regex, p.account, re.IGNORECASE):
                    continue
                pos = position.Position(p.units, p.cost)
                running.add_position(pos)
                shown = {None: pos, 'units': p.units, 'cost': convert.get_cost(pos)}[fname]
                want.append((t.date, t.flag, None if t.payee is None else textwrap.shorten(t.payee, 48),
                             textwrap.shorten(t.narration, 80), p.account, shown, FUNC_OF[fname](inv_sum(running))))
        if [tuple(r) for r in rows] != want:
            return 'journal-rows'
        if len(desc) != 7:
            return 'description'
        return 'ok'


for _f in (None, 'units', 'cost'):
    make_journal(_f)


@cond('C14.unknown-summary', quick=60,
      bounds='BALANCES AT f / JOURNAL AT f with f not a function over positions: CompilationError',
      symbolic='(none)', enumerated='function name, statement kind', params={'i': int, 'journal': bool})
def unknown_summary(i, journal):
    fname = pick(['nosuch', 'length', 'year', 'upper'], i)
    conn = _conn(build(PATTERNS[0], [True] * 3, ACCOUNTS[:3])[0])
    text = (f'JOURNAL AT {fname}' if journal else f'BALANCES AT {fname}')
    try:
        native(conn.execute, text)
    except beanquery.CompilationError:
        return 'ok'
    except Exception as exc:
        return 'raises-' + type(exc).__name__
    return 'unknown-summary-function-accepted'


# ---------------------------------------------------------------------------
# PRINT

PRINT_FILTERS = [
    (None, lambda e: True),
    ("type = 'transaction'", lambda e: isinstance(e, data.Transaction)),
    ("type = 'note' OR type = 'event'", lambda e: isinstance(e, (data.Note, data.Event))),
    ('year = 2019 AND month = 1', lambda e: e.date.year == 2019 and e.date.month == 1),
    ('day >= 20', lambda e: e.date.day >= 20),
    ("flag = '!'", lambda e: isinstance(e, data.Transaction) and e.flag == '!'),
    ("narration ~ 'lunch|dinner'", lambda e: isinstance(e, data.Transaction) and re.search('lunch|dinner', e.narration or '', re.I)),
    ("has_account('Broker')", lambda e: any('Broker' in a for a in _accounts(e))),
    ('date < 2019-01-10', lambda e: e.date < datetime.date(2019, 1, 10)),
    ("NOT type = 'transaction'", lambda e: not isinstance(e, data.Transaction)),
    # tags and links are transaction attributes on the entries table: notes / documents carrying their own do not match
    ("'pay' IN tags", lambda e: isinstance(e, data.Transaction) and 'pay' in e.tags),
    ("'link1' IN links", lambda e: isinstance(e, data.Transaction) and 'link1' in e.links),
    ("tags IS NOT NULL", lambda e: isinstance(e, data.Transaction)),
    ("links IS NULL AND day < 20", lambda e: not isinstance(e, data.Transaction) and e.date.day < 20),
    # OR with an operand that is NULL for some directives (transaction-only columns) before a true one
    ("narration ~ 'lunch' OR type = 'balance'", lambda e: isinstance(e, data.Balance) or
     (isinstance(e, data.Transaction) and re.search('lunch', e.narration or '', re.I))),
    ("payee ~ 'cafe' OR flag = '!' OR type = 'note' OR day = 3", lambda e: isinstance(e, data.Note) or e.date.day == 3 or
     (isinstance(e, data.Transaction) and (e.flag == '!' or re.search('cafe', e.payee or '', re.I)))),
]

PRECISE_LEDGER = ledger.LEDGER_TEXT + '''
2019-03-01 * "precise"
  Expenses:Fees           43.3213 USD
  Assets:Bank            -43.3213 USD
2019-03-02 balance Assets:Bank  875.6787 USD
2019-03-03 note Assets:Bank "a tagged note" #pay ^link1
2019-03-04 document Assets:Bank "/tmp/tagged.pdf" #pay ^link1
'''


def _strip(entry):
    """An entry without the location metadata (and its postings likewise) for comparison."""
    def clean(meta):
        if meta is None:
            return None
        return {k: v for k, v in meta.items() if k not in ('filename', 'lineno') and not k.startswith('__')}
    if isinstance(entry, data.Transaction):
        postings = [p._replace(meta=clean(p.meta) or None) for p in entry.postings]
        return entry._replace(meta=clean(entry.meta), postings=postings)
    return entry._replace(meta=clean(entry.meta))


def _print_check(text, k):
    entries, errors, options = loader.load_string(text)
    conn = beanquery.connect('beancount:', entries=entries, errors=[], options=options)
    ftext, pred = PRINT_FILTERS[k]
    stmt = 'PRINT' + (f' FROM {ftext}' if ftext else '')
    c_print = conn.compile(conn.parse(stmt))
    out = io.StringIO()
    query_execute.execute_print(c_print, out)
    want = [e for e in entries if pred(e)]
    # the printed text loads back to equal directives, in ledger order
    header = ''.join(f'option "{k}" "{v}"\n' for k, v in [('operating_currency', 'USD')])
    opens = '\n'.join(f'1970-01-01 open {acc}' for acc in sorted({a for e in entries for a in _accounts(e)}))
    printed = out.getvalue()
    back, errs, _ = loader.load_string(header + (opens + '\n' if not ftext or 'open' not in printed else '') + printed)
    back = [e for e in back if not (isinstance(e, data.Open) and e.date == datetime.date(1970, 1, 1))]
    # padding transactions are synthesised again by the loader when the pad and balance directives are
    # printed too: compare without them
    back = [e for e in back if not (isinstance(e, data.Transaction) and e.flag == 'P')]
    want = [e for e in want if not (isinstance(e, data.Transaction) and e.flag == 'P')]
    if len(back) != len(want):
        return f'print-selection: {len(back)} printed, {len(want)} expected'
    for b, w in zip(back, want):
        if type(b) is not type(w) or b.date != w.date:
            return 'print-order'
        if isinstance(w, data.Transaction):
            if [(p.account, p.units, p.cost, p.price) for p in _strip(b).postings] != \
                    [(p.account, p.units, p.cost, p.price) for p in _strip(w).postings]:
                return f'print-not-lossless: {w.narration}'
            if (b.flag, b.payee, b.narration, b.tags, b.links) != (w.flag, w.payee, w.narration, w.tags, w.links):
                return 'print-not-lossless-header'
        elif isinstance(w, data.Balance):
            if (b.account, b.amount) != (w.account, w.amount):
                return 'print-not-lossless-balance'
        elif isinstance(w, (data.Note, data.Event, data.Price, data.Open, data.Close, data.Commodity)):
            if _strip(b)[1:] != _strip(w)[1:] and not isinstance(w, (data.Open, data.Commodity)):
                return f'print-not-lossless-{type(w).__name__}'
    return 'ok'


def _accounts(entry):
    if isinstance(entry, data.Transaction):
        return [p.account for p in entry.postings]
    if isinstance(entry, data.Pad):
        return [entry.account, entry.source_account]
    if hasattr(entry, 'account'):
        return [entry.account]
    return []


@cond('C14.print', quick=240,
      bounds='the fixture ledger (every directive kind, costs, prices, tags, links, metadata) plus amounts more precise than the '
             f'usual precision of their currency; PRINT [FROM f] for {len(PRINT_FILTERS)} filters over date parts, type, flag, '
             'narration, has_account: exactly the matching directives, in ledger order, in syntax that loads back to equal directives',
      symbolic='(none: the Beancount printer and its C parser are outside the solver; decided on concrete ledgers, as claimed)',
      enumerated='filter, ledger', params={'k': int, 'precise': bool}, per_path_timeout=300)
def print_stmt(k, precise):
    k = enum_int(k, 0, len(PRINT_FILTERS) - 1)
    text = PRECISE_LEDGER if precise else ledger.LEDGER_TEXT
    return native(_print_check, text, k)


@cond('C14.print.filter-symbolic', quick=240,
      bounds='PRINT FROM year = Y AND month >= M over the fixture ledger with Y, M symbolic: the entries handed to the printer '
             'are exactly the directives satisfying the expression, in ledger order',
      symbolic='Y, M', params={'y': int, 'm': int})
def print_filter_symbolic(y, m):
    assume(2018 <= y <= 2020 and 0 <= m <= 13)
    entries, _, options = ledger.load()
    import beanquery.sources.beancount as src
    conn = beanquery.Connection()
    for cls in src.TABLES:
        if cls.name in ('postings', 'entries'):
            conn.tables[cls.name] = cls(entries, options)
    expr = ast.And([ast.Equal(col('year'), const(y)), ast.GreaterEq(col('month'), const(m))])
    c_print = conn.compile(ast.Print(ast.From(expr, None, None, None)))
    got = [row.entry for row in c_print.table if c_print.where is None or c_print.where(row)]
    want = [e for e in entries if e.date.year == y and e.date.month >= m]
    if got != want:
        return 'print-filter'
    return 'ok'


@cond('C14.balances.history', quick=240,
      bounds='two BALANCES [AT f] statements one after the other in one process, each with or without a WHERE clause and with one '
             'of the three summary functions: each equals the per-account sums computed from the entries',
      symbolic='posting selection bits', enumerated='WHERE presence and summary function of both statements',
      params={'f0': bool, 'f1': bool, 'w1': bool, 'w2': bool, 'fn1': int, 'fn2': int})
def balances_history(f0, f1, w1, w2, fn1, fn2):
    entries, txns = build(PATTERNS[0], [bool(f0), bool(f1), True], ACCOUNTS[:3])
    conn = _conn(entries)
    types = bc_options.get_account_types(ledger.default_options())
    for where, fn in ((w1, fn1), (w2, fn2)):
        fname = pick([None, 'units', 'cost'], fn)
        text = 'BALANCES' + (f' AT {fname}' if fname else '') + (" WHERE posting_flag = '!'" if where else '')
        _, rows = execute(conn, parse(text))
        per_account = {}
        for t in txns:
            for p in t.postings:
                if where and p.flag != '!':
                    continue
                per_account.setdefault(p.account, inventory.Inventory()).add_position(position.Position(p.units, p.cost))
        want = [(acc, FUNC_OF[fname](inv)) for acc, inv in sorted(per_account.items(),
                                                                    key=lambda kv: get_account_sort_key(types, kv[0]))]
        if [tuple(r) for r in rows] != want:
            return 'balances-depend-on-earlier-statement'
    return 'ok'


PRINT_PERIODS = [
    ('CLEAR', (None, None, True)), ('CLOSE ON 2019-02-01', (None, datetime.date(2019, 2, 1), None)),
    ('CLOSE ON 2019-01-16 CLEAR', (None, datetime.date(2019, 1, 16), True)),
    ('OPEN ON 2019-01-10 CLOSE ON 2019-02-02 CLEAR', (datetime.date(2019, 1, 10), datetime.date(2019, 2, 2), True)),
    ("type = 'transaction' CLEAR", (None, None, True)), ('OPEN ON 2019-01-06', (datetime.date(2019, 1, 6), None, None)),
    ('year = 2019 CLOSE', (None, True, None)),
]


def _print_period_check(k):
    from beancount.ops import summarize
    entries, errors, options = loader.load_string(ledger.LEDGER_TEXT)
    conn = beanquery.connect('beancount:', entries=entries, errors=[], options=options)
    text, (d, e, clear) = PRINT_PERIODS[k]
    c_print = conn.compile(conn.parse('PRINT FROM ' + text))
    got = [row.entry for row in c_print.table if c_print.where is None or c_print.where(row)]
    step = entries
    if d is not None:
        step, _ = summarize.open_opt(step, d, options)
    if e is not None:
        step, _ = summarize.close_opt(step, None if e is True else e, options)
    if clear:
        step, _ = summarize.clear_opt(step, None, options)
    want = [x for x in step if not text.startswith('type') or isinstance(x, data.Transaction)]
    if got != want:
        return 'print-selection-after-period-clauses'
    out = io.StringIO()
    query_execute.execute_print(c_print, out)
    # the printed order is the ledger order of the (opened / closed / cleared) entries
    printed = [(ln[:10], ln[11:].split()[0]) for ln in out.getvalue().splitlines() if re.match(r'\d{4}-\d{2}-\d{2} ', ln)]
    expected = [(x.date.isoformat(), _directive_word(x)) for x in want]
    if printed != expected:
        return 'print-order-after-period-clauses'
    return 'ok'


def _directive_word(entry):
    if isinstance(entry, data.Transaction):
        return entry.flag
    return type(entry).__name__.lower()


@cond('C14.print.periods', quick=120,
      bounds=f'PRINT FROM [expr] with {len(PRINT_PERIODS)} OPEN / CLOSE / CLEAR combinations over the fixture ledger: the directives '
             'emitted are those of the opened / closed / cleared ledger, in that ledger\'s order (synthesised entries stay where '
             'the summarisation put them)', symbolic='(none)', enumerated='clause combination', params={'k': int},
      per_path_timeout=300)
def print_periods(k):
    k = enum_int(k, 0, len(PRINT_PERIODS) - 1)
    return native(_print_period_check, k)


# ---------------------------------------------------------------------------
# BALANCES order follows the ledger's own root account names

RENAMED_LEDGER = '''
option "operating_currency" "USD"
option "name_liabilities" "Debts"
option "name_income" "Revenue"
option "name_expenses" "Costs"
2019-01-01 open Assets:Bank
2019-01-01 open Assets:Broker
2019-01-01 open Debts:Card
2019-01-01 open Revenue:Salary
2019-01-01 open Costs:Food
2019-01-01 open Costs:Fees
2019-01-01 open Equity:Opening

2019-01-02 * "salary"
  Assets:Bank           1000.00 USD
  Revenue:Salary       -1000.00 USD
2019-01-05 * "buy"
  Assets:Broker            2 HOOL {100.00 USD}
  Assets:Bank           -200.00 USD
2019-01-10 * "lunch"
  Costs:Food              12.50 USD
  Debts:Card             -12.50 USD
2019-01-11 * "fee"
  Costs:Fees               1.00 USD
  Equity:Opening          -1.00 USD
'''


def _renamed_check(fname, where):
    entries, errors, options = loader.load_string(RENAMED_LEDGER)
    conn = beanquery.connect('beancount:', entries=entries, errors=[], options=options)
    text = 'BALANCES' + (f' AT {fname}' if fname else '') + (" WHERE NOT account ~ 'Broker'" if where else '')
    rows = conn.execute(text).fetchall()
    types = bc_options.get_account_types(options)
    roots = [types.assets, types.liabilities, types.equity, types.income, types.expenses]
    per_account = {}
    for e in entries:
        if isinstance(e, data.Transaction):
            for p in e.postings:
                if where and 'Broker' in p.account:
                    continue
                per_account.setdefault(p.account, inventory.Inventory()).add_position(position.Position(p.units, p.cost))
    want = [(acc, FUNC_OF[fname](inv)) for acc, inv in
            sorted(per_account.items(), key=lambda kv: (roots.index(kv[0].split(':')[0]), kv[0]))]
    if [r[0] for r in rows] != [w[0] for w in want]:
        return 'accounts-not-ordered-by-the-ledgers-account-types'
    if [tuple(r) for r in rows] != want:
        return 'balances-rows'
    return 'ok'


@cond('C14.balances.renamed-roots', quick=60,
      bounds='a ledger that renames three root accounts (Liabilities -> Debts, Income -> Revenue, Expenses -> Costs); BALANCES [AT '
             'units | cost] [WHERE ...]: per-account sums ordered by the ledger\'s account types (assets, liabilities, equity, '
             'income, expenses) then name',
      symbolic='(none)', enumerated='summary function, WHERE presence', params={'fn': int, 'where': bool},
      note='solver-enumerated and executed natively (the ledger is loaded by the Beancount loader)')
def balances_renamed_roots(fn, where):
    fname = pick([None, 'units', 'cost'], fn)
    return native(_renamed_check, fname, bool(where))
