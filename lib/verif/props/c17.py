"""C17 - numberify decomposes amounts per currency without losing or inventing quantities."""

import datetime
import decimal
from typing import Optional

import beanquery
from beancount.core import amount, display_context, inventory, position
from beanquery import numberify
from beanquery.cursor import Column

from .. import sym
from ..h import cond, assume, cover, pick, enum_int, native

D = decimal.Decimal
A = amount.Amount
COST = position.Cost(D('100.00'), 'USD', datetime.date(2019, 1, 5), None)
COST2 = position.Cost(D('120.00'), 'USD', datetime.date(2019, 2, 1), None)

AMOUNTS = [None, A(D('1.50'), 'USD'), A(D('-2.504'), 'USD'), A(D('0'), 'USD'), A(D('200'), 'JPY'), A(D('0.001'), 'EUR'),
           A(D('12345.678'), 'EUR')]
POSITIONS = [None, position.Position(A(D('2'), 'HOOL'), COST), position.Position(A(D('-3.10'), 'USD'), None),
             position.Position(A(D('0'), 'USD'), None), position.Position(A(D('7'), 'JPY'), None),
             position.Position(A(D('1.005'), 'HOOL'), COST2)]


def _inv(*items):
    inv = inventory.Inventory()
    for units, cost in items:
        inv.add_position(position.Position(units, cost))
    return inv


INVENTORIES = [
    None,
    _inv(),
    _inv((A(D('1.50'), 'USD'), None)),
    _inv((A(D('2'), 'HOOL'), COST), (A(D('3'), 'HOOL'), COST2)),                       # two lots of one commodity
    _inv((A(D('5'), 'HOOL'), None), (A(D('10'), 'HOOL'), COST)),                       # plain lot and lot at cost
    _inv((A(D('1.50'), 'USD'), None), (A(D('200'), 'JPY'), None), (A(D('-0.004'), 'EUR'), None)),
    _inv((A(D('2'), 'HOOL'), COST), (A(D('-2'), 'HOOL'), COST)),                       # a lot sold out: empty
    # several lots of one currency whose sub-precision digits add up across a rounding boundary (GBP: 2 places)
    _inv((A(D('1.004'), 'GBP'), None), (A(D('1.004'), 'GBP'), COST), (A(D('1.004'), 'GBP'), COST2)),
    _inv((A(D('0.004'), 'GBP'), COST), (A(D('0.004'), 'GBP'), COST2)),
]
XBT = A(D('0.12345678'), 'XBT')
XBT_VALUES = [XBT, position.Position(XBT, None), _inv((XBT, None), (A(D('2.5'), 'XBT'), COST))]
XBT_WANT = [D('0.12345678'), D('0.12345678'), D('2.62345678')]


def _dformat():
    dc = display_context.DisplayContext()
    dc.update(D('1.00'), 'USD')
    dc.update(D('1'), 'JPY')
    dc.update(D('1.000'), 'EUR')
    dc.update(D('1.00'), 'GBP')
    return dc.build()


def _dformat4():
    dc = display_context.DisplayContext()
    dc.update(D('1.0000'), 'USD')
    dc.update(D('1.00'), 'JPY')
    dc.update(D('1.0'), 'EUR')
    return dc.build()


FMT = _dformat()        # built natively at import: Decimal arithmetic is never symbolic (R4)
FMT4 = _dformat4()      # another ledger's display context: other precisions for the same currencies


def dformat():
    return FMT


def units_by_currency(value):
    """Units per currency in an Amount / Position / Inventory value (summed over lots)."""
    out = {}
    if value is None:
        return out
    if isinstance(value, amount.Amount):
        items = [value]
    elif isinstance(value, position.Position):
        items = [value.units]
    else:
        items = [pos.units for pos in value]
    for a in items:
        out[a.currency] = out.get(a.currency, D(0)) + a.number
    return out


def check(desc, rows, fmt):
    odesc, orows = numberify.numberify_results(desc, rows, fmt)
    if len(orows) != len(rows):
        return 'row-count'
    col = 0
    for i, c in enumerate(desc):
        if c.datatype not in (amount.Amount, position.Position, inventory.Inventory):
            if odesc[col].name != c.name or odesc[col].datatype is not c.datatype:
                return 'plain-column-description'
            for r, o in zip(rows, orows):
                if o[col] is not r[i] and o[col] != r[i]:
                    return 'plain-column-changed'
            col += 1
            continue
        per_row = [units_by_currency(r[i]) for r in rows]
        nonzero = []
        for u in per_row:
            for cur, num in u.items():
                if num != 0 and cur not in nonzero:
                    nonzero.append(cur)
        # the columns of this group
        group = []
        while col < len(odesc) and odesc[col].name.startswith(c.name + ' (') and odesc[col].name.endswith(')'):
            group.append((odesc[col].name[len(c.name) + 2:-1], col))
            col += 1
        names = [g[0] for g in group]
        if len(set(names)) != len(names):
            return 'duplicate-currency-column'
        for cur in nonzero:
            if cur not in names:
                return 'currency-with-non-zero-amount-dropped'
        for cur in names:
            if not any(cur in u for u in per_row):
                return 'column-for-absent-currency'
        # ordered by decreasing frequency (whether a zero amount counts as an occurrence is not specified:
        # either counting is accepted)
        freq_nonzero = [sum(1 for u in per_row if u.get(cur, 0) != 0) for cur in names]
        freq_all = [sum(1 for u in per_row if cur in u) for cur in names]
        if any(a < b for a, b in zip(freq_nonzero, freq_nonzero[1:])) and any(a < b for a, b in zip(freq_all, freq_all[1:])):
            return 'not-ordered-by-decreasing-frequency'
        for cur, k in group:
            if odesc[k].datatype is not D:
                return 'currency-column-datatype'
            for u, o in zip(per_row, orows):
                want = u.get(cur)
                got = o[k]
                if want is None or want == 0:
                    if got is not None and got != 0:
                        return 'value-invented'
                else:
                    if fmt is not None:
                        want = fmt.quantize(want, cur)
                    if got != want:
                        return 'units-lost-or-changed'
    if col != len(odesc):
        return 'extra-columns'
    return None


def make(kind, values, nrows):
    dtype = {'amount': amount.Amount, 'position': position.Position, 'inventory': inventory.Inventory}[kind]
    params = {f'v{i}': int for i in range(nrows)}
    params.update({f'p{i}': int for i in range(nrows)})
    params['pnull'] = bool
    params['fmt'] = bool
    params['second'] = bool

    @cond(f'C17.{kind}.{nrows}rows', quick=240, thorough=900,
          bounds=f'result of {nrows} rows: a plain int column (symbolic or NULL), a {kind} column with cells from a palette of '
                 f'{len(values)} values (NULL, zero, negative, several currencies'
                 + (', two lots of one commodity, plain lot plus lot at cost, lots whose sub-precision digits add up, empty and sold-out inventories' if kind == 'inventory' else '')
                 + '), optionally a second amount-like column; with and without a display formatter (USD 2, JPY 0, EUR 3, GBP 2 places; HOOL unknown)',
          symbolic='plain cells, formatter presence, second column presence', enumerated='amount-like cells',
          params=params, group='C17')
    def numberify_cond(fmt, second, **kw):
        rows = []
        for i in range(nrows):
            v = pick(values, kw[f'v{i}'])
            row = [None if (kw['pnull'] and i == 0) else kw[f'p{i}'], v]
            if second:
                row.append(pick(AMOUNTS, (kw[f'v{i}'] + i) % len(AMOUNTS)))
            rows.append(row)
        desc = [Column('n', int), Column('x', dtype)] + ([Column('other', amount.Amount)] if second else [])
        try:
            # the amount-like cells are concrete: run at native speed (the symbolic plain cells are only copied)
            label = native(check, desc, rows, dformat() if fmt else None)
        except (AttributeError, TypeError) as exc:
            return 'raises-' + type(exc).__name__
        return label or 'ok'


make('amount', AMOUNTS, 2)
make('position', POSITIONS, 2)
make('inventory', INVENTORIES, 2)
make('amount', AMOUNTS, 3)
make('inventory', INVENTORIES, 3)


@cond('C17.identity', quick=60,
      bounds='<=3 rows of plain columns only (int, str): returned unchanged', symbolic='cells, row count',
      params={'n': int, 'a': Optional[int], 'b': Optional[int], 'c': Optional[int]})
def identity(n, a, b, c):
    n = enum_int(n, 0, 3)
    rows = [[v, f's{i}'] for i, v in enumerate((a, b, c))][:n]
    desc = [Column('n', int), Column('s', str)]
    odesc, orows = numberify.numberify_results(desc, rows, None)
    if [(x.name, x.datatype) for x in odesc] != [('n', int), ('s', str)] or [list(r) for r in orows] != rows:
        return 'identity'
    return 'ok'


@cond('C17.unknown-currency', quick=60,
      bounds='amounts, positions and inventories in a currency the display context has never seen (XBT 0.12345678), with a '
             'formatter: the number is kept as it is',
      symbolic='(none)', enumerated='column kind', params={'k': int})
def unknown_currency(k):
    kind = enum_int(k, 0, 2)
    value = XBT_VALUES[kind]
    dtype = [amount.Amount, position.Position, inventory.Inventory][kind]
    desc = [Column('x', dtype)]
    odesc, orows = native(numberify.numberify_results, desc, [[value]], dformat())
    want = XBT_WANT[kind]
    if [c.name for c in odesc] != ['x (XBT)'] or orows[0][0] != want:
        return 'unknown-currency-quantized'
    return 'ok'


@cond('C17.history.formatters', quick=120,
      bounds='two numberify calls in one process on the same 2-row result (amount / position / inventory column with USD, JPY, EUR '
             'values carrying more digits than either precision) with the formatters of two display contexts (USD 2 / 4, JPY 0 / 2, '
             'EUR 3 / 1 places), in either order and with or without a formatter-less call in between: each call quantizes to the '
             'precision of the formatter it was given',
      symbolic='(none)', enumerated='column kind, order of the formatters, cells', params={'k': int, 'swap': bool, 'mid': bool, 'v': int})
def history_formatters(k, swap, mid, v):
    kind = enum_int(k, 0, 2)
    v = enum_int(v, 0, 2)
    swap, mid = bool(swap), bool(mid)

    def run():
        cells = [A(D('12.34567'), 'USD'), A(D('-30.7587'), 'USD'), A(D('200.555'), 'JPY'), A(D('0.98765'), 'EUR')]
        a, b = cells[v], cells[v + 1]
        if kind == 0:
            dtype, values = amount.Amount, [a, b]
        elif kind == 1:
            dtype, values = position.Position, [position.Position(a, None), position.Position(b, COST)]
        else:
            dtype, values = inventory.Inventory, [_inv((a, None), (b, COST)), _inv((b, None))]
        desc = [Column('n', int), Column('x', dtype)]
        rows = [[1, values[0]], [2, values[1]]]
        sequence = [FMT4, FMT] if swap else [FMT, FMT4]
        if mid:
            sequence.insert(1, None)
        for fmt in sequence:
            label = check(desc, rows, fmt)
            if label:
                return label + '-in-a-sequence-of-calls'
        return 'ok'
    return native(run)
