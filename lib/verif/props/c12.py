"""C12 - Inventory aggregation is a homomorphism; the running balance is the prefix sum."""

import datetime
import decimal

import beanquery
from beancount.core import amount, convert, data, inventory, position, prices

from .. import sym, ledger
from ..h import cond, assume, cover, pick, enum_int, native
from ..tables import parse, execute

D = decimal.Decimal
A = amount.Amount
D1, D2 = datetime.date(2019, 1, 5), datetime.date(2019, 2, 1)
LOT_A = position.Cost(D('100.00'), 'USD', D1, None)
LOT_B = position.Cost(D('120.00'), 'USD', D2, None)

# (units, cost) patterns: reductions of lots, two lots of one commodity, several currencies, with and without cost
LOT_ZERO = position.Cost(D('0.00'), 'USD', datetime.date(2019, 1, 7), None)
PATTERNS = [
    [(A(D('10.00'), 'USD'), None), (A(D('2'), 'HOOL'), LOT_A), (A(D('-1'), 'HOOL'), LOT_A)],
    [(A(D('2'), 'HOOL'), LOT_A), (A(D('3'), 'HOOL'), LOT_B), (A(D('-2'), 'HOOL'), LOT_A)],
    [(A(D('5.00'), 'EUR'), None), (A(D('7.50'), 'USD'), None), (A(D('-5.00'), 'EUR'), None)],
    [(A(D('1'), 'HOOL'), LOT_A), (A(D('1'), 'HOOL'), None), (A(D('-2.50'), 'USD'), None)],
    [(A(D('0.001'), 'EUR'), None), (A(D('-12345.678'), 'USD'), None), (A(D('1E+2'), 'USD'), None)],
    [(A(D('-5000.00'), 'USD'), None), (A(D('-5000.00'), 'USD'), None), (A(D('-5000.00'), 'USD'), None)],   # identical postings
    [(A(D('0.00'), 'USD'), None), (A(D('0'), 'HOOL'), LOT_A), (A(D('4.00'), 'EUR'), None)],                 # zero amounts
    [(A(D('0.00'), 'EUR'), None), (A(D('0.00'), 'EUR'), None), (A(D('0.00'), 'EUR'), None)],
    [(A(D('5'), 'HOOL'), LOT_ZERO), (A(D('10.00'), 'USD'), None), (A(D('2'), 'HOOL'), LOT_A)],          # a lot held at zero cost
]
PRICES = [data.Price(ledger.meta(90), datetime.date(2019, 1, 1), 'HOOL', A(D('110.00'), 'USD')),
          data.Price(ledger.meta(91), datetime.date(2019, 1, 1), 'EUR', A(D('1.25'), 'USD')),
          data.Price(ledger.meta(92), datetime.date(2019, 3, 1), 'HOOL', A(D('125.00'), 'USD'))]


def build(pattern, flags, accs, split, nometa=False):
    """Three postings (in two transactions when split) with symbolic selection flags and accounts; without posting
    metadata (like the postings synthesised by OPEN / CLOSE / CLEAR) equal postings compare equal."""
    posts = []
    for (units, cost), flag, acc in zip(pattern, flags, accs):
        posts.append(data.Posting('Assets:A' if acc else 'Assets:B', units, cost, None, '!' if flag else None,
                                  None if nometa else ledger.meta(len(posts) + 1)))
    if split:
        txns = [ledger.txn(datetime.date(2019, 2, 10), posts[:1], narration='t0', lineno=1),
                ledger.txn(datetime.date(2019, 2, 11), posts[1:], narration='t1', lineno=2)]
    else:
        txns = [ledger.txn(datetime.date(2019, 2, 10), posts, narration='t0', lineno=1)]
    return PRICES + txns, posts


def _conn(entries):
    import beanquery.sources.beancount as src
    conn = beanquery.Connection()
    options = ledger.default_options()
    for cls in src.TABLES:
        if cls.name in ('postings', 'prices', 'entries', 'accounts'):
            conn.tables[cls.name] = cls(entries, options)
    return conn


def inv_sum(positions):
    inv = inventory.Inventory()
    for pos in positions:
        inv.add_position(pos)
    return inv


PARAMS = {'pat': int, 'f0': bool, 'f1': bool, 'f2': bool, 'a0': bool, 'a1': bool, 'a2': bool, 'split': bool}


def _setup(kw):
    pattern = pick(PATTERNS, kw['pat'])
    flags = [True if kw[f'f{i}'] else False for i in range(3)]
    accs = [True if kw[f'a{i}'] else False for i in range(3)]
    entries, posts = build(pattern, flags, accs, True if kw['split'] else False, True if kw.get('nometa') else False)
    return entries, posts, flags, accs


def _q(conn, text):
    return execute(conn, parse(text))[1]


@cond('C12.sum', quick=240, thorough=900,
      bounds=f'3 postings from {len(PATTERNS)} amount / lot patterns (lot reductions, two lots of one commodity, three currencies, '
             'cost and no cost, identical postings, zero amounts, a lot at zero cost), in one or two transactions; symbolic: which postings the WHERE condition selects, which account each '
             'posting is on: sum(position) equals the Beancount inventory sum of the selection; sums per account add up to the whole',
      symbolic='selection bits, account bits, transaction split', enumerated='amount pattern', params=PARAMS)
def sum_positions(**kw):
    entries, posts, flags, accs = _setup(kw)
    conn = _conn(entries)
    selected = [position.Position(p.units, p.cost) for p, f in zip(posts, flags) if f]
    rows = _q(conn, "SELECT sum(position) AS s FROM #postings WHERE posting_flag = '!'")
    if not selected:
        # a selection with no qualifying row yields no output row (C02)
        cover('empty-selection')
        return 'ok' if rows == [] else 'row-for-empty-selection'
    if len(rows) != 1 or rows[0][0] != inv_sum(selected):
        return 'sum-of-positions'
    rows = _q(conn, "SELECT account, sum(position) AS s FROM #postings WHERE posting_flag = '!' GROUP BY account")
    total = inventory.Inventory()
    for _, inv in rows:
        total.add_inventory(inv)
    if total != inv_sum(selected):
        return 'partition-does-not-add-up'
    if not selected:
        cover('empty-selection')
    rows = _q(conn, "SELECT sum(units(position)) AS u, sum(weight) AS w FROM #postings WHERE posting_flag = '!'")
    if rows[0][0] != inv_sum(selected).reduce(convert.get_units):
        return 'sum-of-amounts'
    return 'ok'


FUNCS = {
    'units': ('units({})', lambda inv, pm: inv.reduce(convert.get_units)),
    'cost': ('cost({})', lambda inv, pm: inv.reduce(convert.get_cost)),
    'value': ('value({})', lambda inv, pm: inv.reduce(convert.get_value, pm)),
    'value-dated': ("value({}, 2019-02-01)", lambda inv, pm: inv.reduce(convert.get_value, pm, datetime.date(2019, 2, 1))),
    'convert-usd': ("convert({}, 'USD')", lambda inv, pm: inv.reduce(convert.convert_position, 'USD', pm)),
    'convert-eur': ("convert({}, 'EUR')", lambda inv, pm: inv.reduce(convert.convert_position, 'EUR', pm)),
}


def make_homomorphism(fname):
    template, oracle = FUNCS[fname]

    @cond(f'C12.homomorphism.{fname}', quick=240, thorough=900,
          bounds=f'as C12.sum; {template.format("sum(position)")} equals {("sum(" + template.format("position") + ")")} and both '
                 'equal the function applied to the Beancount inventory sum (prices: HOOL 110 and 125 USD, EUR 1.25 USD)',
          symbolic='selection bits, account bits, transaction split', enumerated='amount pattern', params=PARAMS,
          group='C12.homomorphism')
    def homomorphism(**kw):
        entries, posts, flags, accs = _setup(kw)
        conn = _conn(entries)
        selected = [position.Position(p.units, p.cost) for p, f in zip(posts, flags) if f]
        outer = template.format('sum(position)')
        inner = 'sum(' + template.format('position') + ')'
        rows = _q(conn, f"SELECT {outer} AS o, {inner} AS i FROM #postings WHERE posting_flag = '!'")
        pm = conn.tables['prices'].price_map
        want = oracle(inv_sum(selected), pm)
        if not selected:
            return 'ok' if rows == [] else 'row-for-empty-selection'
        if rows[0][0] != want:
            return 'function-of-sum'
        if rows[0][1] != want:
            return 'sum-of-function'
        return 'ok'


for _f in FUNCS:
    make_homomorphism(_f)


@cond('C12.sum.of-inventories', quick=240, thorough=900,
      bounds='as C12.sum; the per-account sums taken as an inventory-typed subquery column and summed again: SELECT units(sum(inv)), '
             'cost(sum(inv)), sum(inv), count(inv) FROM (SELECT account, sum(position) AS inv ... GROUP BY account): each equals the '
             'function of the Beancount inventory sum of the selection; the inner query alone still returns the per-account sums',
      symbolic='selection bits, account bits, transaction split', enumerated='amount pattern', params=PARAMS)
def sum_of_inventories(**kw):
    entries, posts, flags, accs = _setup(kw)
    conn = _conn(entries)
    selected = [position.Position(p.units, p.cost) for p, f in zip(posts, flags) if f]
    inner = "SELECT account, sum(position) AS inv FROM #postings WHERE posting_flag = '!' GROUP BY account"
    rows = _q(conn, f"SELECT units(sum(inv)) AS u, cost(sum(inv)) AS c, sum(inv) AS s, count(inv) AS n FROM ({inner})")
    if not selected:
        return 'ok' if rows == [] else 'row-for-empty-selection'
    whole = inv_sum(selected)
    if len(rows) != 1:
        return 'row-count'
    u, c, s, n = rows[0]
    if s != whole:
        return 'sum-of-partial-sums'
    if u != whole.reduce(convert.get_units):
        return 'units-of-sum-of-partial-sums'
    if c != whole.reduce(convert.get_cost):
        return 'cost-of-sum-of-partial-sums'
    if n != len({('Assets:A' if a else 'Assets:B') for a, f in zip(accs, flags) if f}):
        return 'group-count'
    return 'ok'


# ---------------------------------------------------------------------------
# running balance

BALANCE_TARGETS = [
    'position',
    'position, balance',
    'balance, position, balance',
    'balance, units(balance) AS u, position, balance AS again, cost(balance) AS c',
    "balance, account IN (SELECT account FROM #postings) AS x, position, balance AS again",
    "balance, account IN (SELECT account FROM #postings WHERE empty(balance) IS NOT NULL) AS x, position, balance AS again",
    # balance consulted only as a later argument of a function whose first argument is NULL on some rows
    "only(cost_currency, balance) AS o, position, cost_currency AS cc",
]


@cond('C12.balance', quick=300, thorough=900,
      bounds='as C12.sum; targets referencing `balance` 0, 1, 2 or 3 times (also with a subquery scan of #postings between two '
             'references, and only as the second argument of only(cost_currency, balance)); WHERE does not consult it: every reported balance is the inventory sum of the selected positions up '
             'to and including the row, the last one equals sum(position) of the selection',
      symbolic='selection bits, transaction split, postings with / without metadata (equal postings compare equal without)',
      enumerated='amount pattern, target list',
      params={'pat': int, 'f0': bool, 'f1': bool, 'f2': bool, 'split': bool, 'targets': int, 'nometa': bool})
def balance(targets, **kw):
    kw = dict(kw, a0=False, a1=False, a2=False)      # the account plays no role for the running balance
    entries, posts, flags, accs = _setup(kw)
    conn = _conn(entries)
    tlist = pick(BALANCE_TARGETS, targets)
    rows = _q(conn, f"SELECT {tlist} FROM #postings WHERE posting_flag = '!'")
    selected = [position.Position(p.units, p.cost) for p, f in zip(posts, flags) if f]
    if len(rows) != len(selected):
        return 'row-count'
    names = ['o', 'position', 'cc'] if tlist.startswith('only(') else \
        [t.strip().split(' AS ')[-1].split('(')[0] for t in tlist.split(', ') if not t.startswith('2019')]
    running = inventory.Inventory()
    for row, pos in zip(rows, selected):
        running.add_position(pos)
        for name, cell in zip(names, row):
            if name in ('balance', 'again') and cell != running:
                return 'balance-is-not-the-prefix-sum'
            if name == 'u' and cell != running.reduce(convert.get_units):
                return 'units-of-balance'
            if name == 'c' and cell != running.reduce(convert.get_cost):
                return 'cost-of-balance'
            if name == 'position' and cell != pos:
                return 'position'
            if name == 'o':
                cc = row[names.index('cc')]
                want_o = None if cc is None else running.get_currency_units(cc)
                if cell != want_o:
                    return 'balance-as-function-argument'
    total = _q(conn, "SELECT sum(position) AS s FROM #postings WHERE posting_flag = '!'")
    if selected and total[0][0] != running:
        return 'last-balance-differs-from-sum'
    return 'ok'


@cond('C12.balance.in-where', quick=240, thorough=900,
      bounds='as C12.sum; the WHERE condition consults balance before the selection test: the balance is the sum over all '
             'postings scanned so far',
      symbolic='selection bits, transaction split', enumerated='amount pattern', params=PARAMS)
def balance_in_where(**kw):
    entries, posts, flags, accs = _setup(kw)
    conn = _conn(entries)
    rows = _q(conn, "SELECT balance, position FROM #postings WHERE empty(balance) IS NOT NULL AND posting_flag = '!'")
    running = inventory.Inventory()
    want = []
    for p, f in zip(posts, flags):
        running.add_position(position.Position(p.units, p.cost))
        if f:
            want.append(inv_sum(running))
    if [r[0] for r in rows] != want:
        return 'balance-consulted-in-where'
    return 'ok'


@cond('C12.balance.history', quick=240, thorough=900,
      bounds='two queries in one process: SELECT balance over the whole table, then SELECT position, balance, balance with a '
             'WHERE selecting any subset (in particular only the last posting), on the same and on a fresh connection: the '
             'second result is the prefix sum of its own selection',
      symbolic='selection bits, transaction split, same / fresh connection', enumerated='amount pattern',
      params={**PARAMS, 'fresh': bool})
def balance_history(fresh, **kw):
    entries, posts, flags, accs = _setup(kw)
    conn = _conn(entries)
    first = _q(conn, 'SELECT balance FROM #postings')
    if len(first) != 3 or first[-1][0] != inv_sum(position.Position(p.units, p.cost) for p in posts):
        return 'unfiltered-balance'
    if fresh:
        conn = _conn(entries)
    rows = _q(conn, "SELECT position, balance, balance AS again FROM #postings WHERE posting_flag = '!'")
    running = inventory.Inventory()
    selected = [position.Position(p.units, p.cost) for p, f in zip(posts, flags) if f]
    if len(rows) != len(selected):
        return 'row-count'
    for row, pos in zip(rows, selected):
        running.add_position(pos)
        if row[1] != running or row[2] != running:
            return 'balance-depends-on-earlier-query'
    return 'ok'
