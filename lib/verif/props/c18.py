"""C18 - Scalar function library obeys calendar, account-name, string and numeric laws."""

import calendar
import datetime
import decimal
import re
from typing import Optional

from dateutil.relativedelta import relativedelta

import beanquery
from beanquery import query_compile, query_env, types
from beanquery.query_compile import FUNCTIONS

from .. import refsem, sym, ledger
from ..h import cond, assume, cover, pick, enum_int, native
from .c01 import Stub, same

D = decimal.Decimal
UNITS = ['week', 'month', 'quarter', 'year', 'decade', 'century', 'millennium']
_CONN = []


def _conn():
    if not _CONN:
        _CONN.append(ledger.connect())
    return _CONN[0]


def _dtype(v):
    if isinstance(v, bool):
        return bool
    if isinstance(v, int):
        return int
    if isinstance(v, D):
        return D
    if isinstance(v, str):
        return str
    if isinstance(v, datetime.date):
        return datetime.date
    if isinstance(v, relativedelta):
        return relativedelta
    if isinstance(v, (set, frozenset)):
        return set
    return type(v)


def call(name, *values, dtypes=None):
    """Evaluate the registered BQL function on concrete / symbolic values through its overload."""
    dts = dtypes or [_dtype(v) for v in values]
    fcls = refsem.lookup(FUNCTIONS, name, dts)
    if fcls is None:
        raise LookupError(f'{name}{dts}')
    stubs = [Stub(t, v, [], i) for i, (t, v) in enumerate(zip(dts, values))]
    return fcls(_conn(), stubs)(None)


DATE = sym.VDate(1900, 2100, nullable=False)


def first_day(unit, d):
    """The first day of d's unit, from the calendar definition."""
    y, m = d.year, d.month
    if unit == 'week':
        return d - datetime.timedelta(days=d.weekday())     # weeks start on Monday
    if unit == 'month':
        return datetime.date(y, m, 1)
    if unit == 'quarter':
        return datetime.date(y, 3 * ((m - 1) // 3) + 1, 1)
    if unit == 'year':
        return datetime.date(y, 1, 1)
    if unit == 'decade':
        return datetime.date(y - y % 10, 1, 1)
    if unit == 'century':
        return datetime.date(y - (y - 1) % 100, 1, 1)       # the 21st century starts on 2001-01-01
    if unit == 'millennium':
        return datetime.date(y - (y - 1) % 1000, 1, 1)
    raise KeyError(unit)


def make_trunc(unit):
    # the week arithmetic (ordinal modulo 7) is much harder on the solver: narrower range
    DATE = sym.VDate(2019, 2021, nullable=False) if unit == 'week' else sym.VDate(1900, 2100, nullable=False)
    rng = '2019-01-01..2021-12-31' if unit == 'week' else '1900-01-01..2100-12-31'

    @cond(f'C18.date_trunc.{unit}', quick=None if unit == 'week' else 180, thorough=2400 if unit == 'week' else 720,
          bounds=f'every date {rng}: date_trunc("{unit}", d) is the first day of d\'s {unit}, not after d, idempotent',
          symbolic='the date (y, m, d)', params=DATE.params('d'), group='C18.date')
    def trunc(**kw):
        d = DATE.build('d', kw)
        t = call('date_trunc', unit, d)
        if t != first_day(unit, d):
            return 'not-the-first-day-of-the-unit'
        if not t <= d:
            return 'after-the-date'
        if call('date_trunc', unit, t) != t:
            return 'not-idempotent'
        return 'ok'

    ylo, yhi = (2020, 2020) if unit == 'week' else (1900, 2100)

    @cond(f'C18.date_trunc.{unit}.monotone', quick=None if unit == 'week' else 240, thorough=2400 if unit == 'week' else 900,
          bounds=f'two dates {ylo}..{yhi} (day <= 28): d1 <= d2 implies date_trunc("{unit}", d1) <= date_trunc("{unit}", d2)',
          symbolic='both dates',
          params={**sym.VDate(ylo, yhi, nullable=False, maxday=28).params('d1'),
                  **sym.VDate(ylo, yhi, nullable=False, maxday=28).params('d2')}, group='C18.date')
    def monotone(**kw):
        dom = sym.VDate(ylo, yhi, nullable=False, maxday=28)
        d1, d2 = dom.build('d1', kw), dom.build('d2', kw)
        assume(d1 <= d2)
        if not call('date_trunc', unit, d1) <= call('date_trunc', unit, d2):
            return 'not-monotone'
        return 'ok'


for _u in UNITS:
    make_trunc(_u)


def _all_days(y0, y1):
    d = datetime.date(y0, 1, 1)
    while d.year <= y1:
        yield d
        d += datetime.timedelta(days=1)


def _week_scan():
    prev = None
    for d in _all_days(2018, 2022):
        t = call('date_trunc', 'week', d)
        if t != first_day('week', d) or t > d or call('date_trunc', 'week', t) != t or t.weekday() != 0:
            return f'week-start: {d}'
        if prev is not None and t < prev:
            return f'not-monotone: {d}'
        prev = t
        names = ['Mon', 'Tue', 'Wed', 'Thu', 'Fri', 'Sat', 'Sun']
        if call('weekday', d) != names[(d.toordinal() + 6) % 7]:
            return f'weekday: {d}'
        if call('date_part', 'dow', d) != d.weekday() or call('date_part', 'isodow', d) != d.isoweekday():
            return f'dow: {d}'
    return 'ok'


@cond('C18.week.enumerated', quick=120,
      bounds='every day 2018-01-01..2022-12-31 (looped natively): date_trunc("week") is the Monday on or before the date, '
             'idempotent, monotone; weekday / date_part(dow) name that day',
      symbolic='(none: ordinal modulo 7 arithmetic is very slow in the solver; symbolic version in the thorough tier)',
      enumerated='all 1826 days', params={'x': bool}, group='C18.date', per_path_timeout=600)
def week_enumerated(x):
    return native(_week_scan)


@cond('C18.date_part', quick=240, thorough=900,
      bounds='every date 1900..2100: year/month/day/quarter/date_part agree with the calendar and with date_trunc',
      symbolic='the date', params=DATE.params('d'), group='C18.date')
def date_part(**kw):
    d = DATE.build('d', kw)
    y, m, dd = d.year, d.month, d.day
    if call('year', d) != y or call('month', d) != m or call('day', d) != dd:
        return 'year-month-day'
    if call('date_part', 'year', d) != y or call('date_part', 'month', d) != m:
        return 'date_part-year-month'
    q = (m - 1) // 3 + 1
    if call('date_part', 'quarter', d) != q:
        return 'date_part-quarter'
    if call('date_part', 'decade', d) != y // 10:
        return 'date_part-decade'
    if call('date_part', 'century', d) != (y - 1) // 100 + 1:
        return 'date_part-century'
    if call('date_part', 'millennium', d) != (y - 1) // 1000 + 1:
        return 'date_part-millennium'
    if call('yearmonth', d) != datetime.date(y, m, 1):
        return 'yearmonth'
    if call('date_part', 'zz', d) is not None or call('date_trunc', 'zz', d) is not None:
        return 'unknown-unit-not-null'
    return 'ok'


def make_part_trunc(unit):
    @cond(f'C18.date_part.agrees-with-trunc.{unit}', quick=180, thorough=720,
          bounds=f'every date 1900..2100: date_part("{unit}") of d and of date_trunc("{unit}", d) agree; the truncated date '
                 'lies in the same unit',
          symbolic='the date', params=DATE.params('d'), group='C18.date')
    def part_trunc(**kw):
        d = DATE.build('d', kw)
        t = call('date_trunc', unit, d)
        if unit == 'week':
            if (d - t).days not in range(7) or t.weekday() != 0:
                return 'week-start'
            return 'ok'
        if call('date_part', unit, t) != call('date_part', unit, d):
            return 'part-differs-on-truncated-date'
        return 'ok'


for _u in UNITS:
    make_part_trunc(_u)


@cond('C18.quarter', quick=180, thorough=600,
      bounds='every date 2019..2020: quarter(d) is "<year>-Q<quarter>"',
      symbolic='month, day', enumerated='year', params=sym.VDate(2019, 2020, nullable=False).params('d'), group='C18.date')
def quarter(**kw):
    kw = dict(kw)
    kw['d_y'] = enum_int(kw['d_y'], 2019, 2020)
    d = sym.VDate(2019, 2020, nullable=False).build('d', kw)
    m = enum_int(d.month, 1, 12)
    if call('quarter', d) != f'{kw["d_y"]:04d}-Q{(m - 1) // 3 + 1}':
        return 'quarter'
    return 'ok'


@cond('C18.date_add-diff', quick=240, thorough=900,
      bounds='every date 1900..2100 and k in +-100000: date_add, date_diff and date +/- integer are mutually inverse',
      symbolic='the date, k', params={**DATE.params('d'), 'k': int}, group='C18.date')
def date_add_diff(k, **kw):
    d = DATE.build('d', kw)
    assume(-100000 <= k <= 100000)
    e = call('date_add', d, k)
    if call('date_diff', e, d) != k:
        return 'diff-of-add'
    if call('date_add', e, -k) != d:
        return 'add-inverse'
    if call('date_diff', d, e) != -k:
        return 'diff-antisymmetric'
    if (k >= 0) != (e >= d):
        return 'direction'
    return 'ok'


BIN_DAYS = [1, 15, 28]


def _enum_date(y, m, d, years=(2019, 2020)):
    # a native date: these conditions run the function natively (see bounds)
    return native(datetime.date, pick(list(years), y), enum_int(m, 1, 12), pick(BIN_DAYS, d))


BIN_PARAMS = {'dy': int, 'dm': int, 'dd': int, 'oy': int, 'om': int, 'od': int}


def make_bin_days(n):
    @cond(f'C18.date_bin.{n}days', quick=240, thorough=600,
          bounds=f'stride of {n} days; date and origin: every (year in 2019..2020, month, day in 1, 15, 28): result <= d < result '
                 f'+ {n} days and result is origin plus a multiple of {n} days',
          symbolic='(none: the float arithmetic of the day strides is out of the solver\'s reach)',
          enumerated='date and origin (72 x 72), stride (one condition each)', params=BIN_PARAMS, group='C18.date_bin')
    def date_bin_days(dy, dm, dd, oy, om, od):
        d, o = _enum_date(dy, dm, dd), _enum_date(oy, om, od)
        r = native(call, 'date_bin', relativedelta(days=n), d, o)
        if r is None:
            return 'null-for-positive-stride'
        if not (r <= d < r + datetime.timedelta(days=n)):
            return 'date-not-in-bin'
        if (r - o).days % n != 0:
            return 'not-aligned-on-origin'
        return 'ok'


for _n in (1, 2, 7, 30, 365, 400):
    make_bin_days(_n)


def _add_months(d, k):
    """Calendar arithmetic: k months later, day clipped to the month's length."""
    total = d.year * 12 + (d.month - 1) + k
    y, m = total // 12, total % 12 + 1
    return datetime.date(y, m, min(d.day, calendar.monthrange(y, m)[1]))


def make_bin_months(n, years):
    unit = 'years' if years else 'months'

    @cond(f'C18.date_bin.{n}{unit}', quick=240, thorough=600,
          bounds=f'stride of {n} {unit}; date and origin: every (year in 2019..2020, month, day in 1, 15, 28): result = origin + j '
                 'strides for an integer j, result <= d < result + stride (a date exactly on a bin start is in that bin)',
          symbolic='(none: relativedelta arithmetic in a data-dependent loop is out of the solver\'s reach)',
          enumerated='date and origin (72 x 72), stride (one condition each)', params=BIN_PARAMS, group='C18.date_bin')
    def date_bin_months(dy, dm, dd, oy, om, od):
        d, o = _enum_date(dy, dm, dd), _enum_date(oy, om, od)
        stride = relativedelta(years=n) if years else relativedelta(months=n)
        r = native(call, 'date_bin', stride, d, o)
        if r is None:
            return 'null-for-positive-stride'
        months = n * 12 if years else n
        if not r <= d:
            return 'bin-start-after-date'
        if not d < _add_months(r, months):
            return 'date-not-before-next-bin'
        j = ((r.year - o.year) * 12 + (r.month - o.month))
        if j % months != 0 or r.day != o.day:
            return 'not-aligned-on-origin'
        return 'ok'


for _n in (1, 2, 3, 5, 12):
    make_bin_months(_n, False)
for _n in (1, 2):
    make_bin_months(_n, True)


DEGENERATE_STRIDES = [relativedelta(days=0), relativedelta(days=-1), relativedelta(months=0), relativedelta(months=-1),
                      relativedelta(years=-1), '0 days', '-2 days', '-1 month', '0 months', 'zz', '1.5 days', '']


@cond('C18.date_bin.degenerate', quick=120,
      bounds='zero and negative strides in days / months / years and unparsable stride strings: NULL, never an exception',
      symbolic='date (day <= 28)', enumerated='stride',
      params={'s': int, **sym.VDate(2019, 2021, nullable=False, maxday=28).params('d')}, group='C18.date_bin')
def date_bin_degenerate(s, **kw):
    d = sym.VDate(2019, 2021, nullable=False, maxday=28).build('d', kw)
    o = datetime.date(2020, 1, 15)
    stride = pick(DEGENERATE_STRIDES, s)
    if isinstance(stride, str):
        cover('string-stride')
    try:
        r = call('date_bin', stride, d, o)
    except Exception as exc:
        return f'raises-{type(exc).__name__}'
    if r is not None:
        return 'non-positive-stride-not-null'
    return 'ok'


def _make_interval(unit_index):
    return cond(f'C18.interval.{["day", "month", "year"][unit_index]}', quick=300, thorough=900,
                bounds='interval("<n> <unit>[s]") for n in {-3,-1,0,1,2,12} (singular and plural), and invalid texts: equals the '
                       'relativedelta / NULL; date + interval equals calendar arithmetic for every date of 2020',
                symbolic='the date', enumerated='n, plural; unit (one condition each)',
                params={'n': int, 'plural': bool, **sym.VDate(2020, 2020, nullable=False).params('d')},
                group='C18.date')(lambda n, plural, **kw: interval(n, unit_index, plural, **kw))


for _ui in range(3):
    _make_interval(_ui)


@cond('C18.interval.all', quick=None, thorough=1800,
      bounds='interval("<n> <unit>[s]") for n in {-3,-1,0,1,2,12} and unit in day, month, year (singular and plural), and invalid '
             'texts: equals the relativedelta / NULL; date + interval equals calendar arithmetic for every date of 2020',
      symbolic='the date', enumerated='n, unit, plural',
      params={'n': int, 'u': int, 'plural': bool, **sym.VDate(2020, 2020, nullable=False).params('d')}, group='C18.date')
def interval(n, u, plural, **kw):
    n = pick([-3, -1, 0, 1, 2, 12], n)
    unit = pick(['day', 'month', 'year'], u)
    d = sym.VDate(2020, 2020, nullable=False).build('d', kw)
    text = f'{n} {unit}' + ('s' if plural else '')
    iv = native(call, 'interval', text)
    want = relativedelta(**{unit + 's': n})
    if iv != want:
        return 'interval-value'
    got = refsem.lookup(query_compile.OPERATORS, beanquery.parser.ast.Add, [datetime.date, relativedelta])(
        Stub(datetime.date, d, [], 0), Stub(relativedelta, iv, [], 1))(None)
    if unit == 'day':
        want_date = d + datetime.timedelta(days=n)
    else:
        want_date = _add_months(d, n if unit == 'month' else 12 * n)
    if got != want_date:
        return 'date-plus-interval'
    for bad in ('3', 'days', '3 weeks ago', 'x days', '3days'):
        if native(call, 'interval', bad) is not None:
            return 'invalid-interval-not-null'
    return 'ok'


# ---------------------------------------------------------------------------
# accounts

X250, NX250 = D('2.50'), D('-2.50')
ROOTS = ['Assets', 'Liabilities', 'Equity', 'Income', 'Expenses']
COMPS = ['Bank', 'B2']


def _account(r, depth, c1, c2, c3, c4):
    parts = [pick(ROOTS, r)]
    for i, c in enumerate((c1, c2, c3, c4)):
        if i < depth - 1:
            parts.append(pick(COMPS, c))
    return parts


ACC_PARAMS = {'r': int, 'depth': int, 'c1': int, 'c2': int, 'c3': int, 'c4': int}


@cond('C18.account.decompose', quick=240,
      bounds='account names of 1..5 components (5 root types x 2 component names per level): root(a, n) is the first n '
             'components for n in 0..6, parent(a):leaf(a) = a, possign flips exactly for Liabilities, Equity, Income',
      symbolic='n', enumerated='the account name', params={**ACC_PARAMS, 'n': int}, group='C18.account')
def account_decompose(n, **kw):
    depth = enum_int(kw['depth'], 1, 5)
    parts = _account(kw['r'], depth, kw['c1'], kw['c2'], kw['c3'], kw['c4'])
    acc = ':'.join(parts)
    n = enum_int(n, 0, 6)
    if native(call, 'root', acc, n) != ':'.join(parts[:n]):
        return 'root-n'
    if native(call, 'root', acc) != parts[0]:
        return 'root-default'
    if native(call, 'leaf', acc) != parts[-1]:
        return 'leaf'
    parent = native(call, 'parent', acc)
    if depth >= 2:
        if parent + ':' + parts[-1] != acc:
            return 'parent-leaf'
    elif parent not in ('', None):
        return 'parent-of-root'
    flips = parts[0] in ('Liabilities', 'Equity', 'Income')
    x = X250
    if native(call, 'possign', x, acc) != (NX250 if flips else x):
        return 'possign'
    return 'ok'


@cond('C18.account.sortkey', quick=240,
      bounds='two account names (5 root types, depth <= 3 / <= 2, 2 component names per level): account_sortkey orders by account type (Assets, Liabilities, Equity, '
             'Income, Expenses) then by name',
      symbolic='(none)', enumerated='both account names',
      params={'r1': int, 'd1': int, 'a1': int, 'b1': int, 'r2': int, 'd2': int, 'a2': int, 'b2': int}, group='C18.account')
def account_sortkey(r1, d1, a1, b1, r2, d2, a2, b2):
    p1 = _account(r1, enum_int(d1, 1, 3), enum_int(a1, 0, 1), enum_int(b1, 0, 1), 0, 0)
    p2 = _account(r2, enum_int(d2, 1, 2), enum_int(a2, 0, 1), 0, 0, 0)
    x, y = ':'.join(p1), ':'.join(p2)
    kx, ky = native(call, 'account_sortkey', x), native(call, 'account_sortkey', y)
    want = (ROOTS.index(p1[0]), x) < (ROOTS.index(p2[0]), y)
    if (kx < ky) != want:
        return 'sortkey-order'
    if (kx == ky) != (x == y):
        return 'sortkey-equality'
    return 'ok'


# ---------------------------------------------------------------------------
# strings

STR = sym.VStr(3, alphabet='aA:', nullable=False)


@cond('C18.string.basic', quick=240, thorough=900,
      bounds='strings of length <= 3 over {a, A, :}: upper, lower, length equal their Python definitions',
      symbolic='the string', params=STR.params('s'), group='C18.string')
def string_basic(**kw):
    s = STR.build('s', kw)
    if call('upper', s) != s.upper() or call('lower', s) != s.lower():
        return 'case'
    if call('length', s) != len(s):
        return 'length'
    return 'ok'


@cond('C18.string.substr', quick=300, thorough=900,
      bounds='strings of length <= 3 over {a, A, :}; indices symbolic in -5..5: substr(s, i, j) = s[i:j]',
      symbolic='the string, both indices', params={**STR.params('s'), 'i': int, 'j': int}, group='C18.string')
def string_substr(i, j, **kw):
    s = STR.build('s', kw)
    assume(-5 <= i <= 5 and -5 <= j <= 5)
    if call('substr', s, i, j) != s[i:j]:
        return 'substr'
    return 'ok'


def _split_ref(s, d):
    """Components of s between occurrences of the one-character delimiter d (written out, not str.split)."""
    parts, cur = [], ''
    for ch in s:
        if ch == d:
            parts.append(cur)
            cur = ''
        else:
            cur += ch
    parts.append(cur)
    return parts


@cond('C18.string.splitcomp', quick=300, thorough=900,
      bounds='strings of length <= 3 over {a, A, :}; delimiter ":" or "a"; index symbolic over every valid position, negative ones '
             'included (-n..n-1 for n components): splitcomp(s, d, i) is the i-th component',
      symbolic='the string, the index', enumerated='delimiter', params={**STR.params('s'), 'i': int, 'da': bool}, group='C18.string')
def string_splitcomp(i, da, **kw):
    s = STR.build('s', kw)
    d = 'a' if da else ':'
    parts = _split_ref(s, d)
    assume(-len(parts) <= i < len(parts))
    if call('splitcomp', s, d, i) != parts[i]:
        return 'splitcomp'
    if i < 0:
        cover('negative-index')
    return 'ok'


SPLIT_STRINGS = ['', ':', 'a', 'a:b', 'Assets:Bank:Checking', '::', 'a::b:', ':x']


@cond('C18.string.splitcomp-enumerated', quick=120,
      bounds=f'splitcomp(s, ":", i) for s in {SPLIT_STRINGS} and every valid index i (negative included); agrees with leaf() / '
             'root(.., 1) on account names',
      symbolic='(none)', enumerated='string, index', params={'k': int, 'i': int}, group='C18.string')
def splitcomp_enumerated(k, i):
    s = pick(SPLIT_STRINGS, k)
    parts = _split_ref(s, ':')
    i = enum_int(i, -4, 3)
    assume(-len(parts) <= i < len(parts))
    if native(call, 'splitcomp', s, ':', i) != parts[i]:
        return 'splitcomp'
    if s == 'Assets:Bank:Checking' and i == -1 and native(call, 'leaf', s) != parts[i]:
        return 'leaf-disagrees'
    return 'ok'


SUBSTR_STRINGS = ['', 'a', 'ab', 'abc', 'abcdef']


@cond('C18.string.substr-enumerated', quick=240,
      bounds='substr(s, i, j) = s[i:j] for s in ("", a, ab, abc, abcdef) and every i, j in -8..8 (native slices as oracle)',
      symbolic='(none)', enumerated='string, both indices', params={'k': int, 'i': int, 'j': int}, group='C18.string')
def substr_enumerated(k, i, j):
    s = pick(SUBSTR_STRINGS, k)
    i, j = enum_int(i, -8, 8), enum_int(j, -8, 8)
    if native(call, 'substr', s, i, j) != s[i:j]:
        return 'substr'
    return 'ok'


TEXTS = ['', 'abc', 'hello world foo', 'a  b   c', 'x' * 12, 'Assets:Bank:Checking', 'aXbXc']
PATTERNS = ['a', '^a', 'o+', '(l+)(o)', 'X', ':', 'zz', '[a-c]', r'\s+']


@cond('C18.string.regex', quick=240,
      bounds=f'texts {TEXTS} x patterns {PATTERNS}: grep, grepn (groups 0..2), subst, splitcomp, maxwidth (widths 5..25) equal '
             'their re / str definitions',
      symbolic='(none)', enumerated='text, pattern, group / index / width', params={'t': int, 'p': int, 'n': int},
      group='C18.string')
def string_regex(t, p, n):
    text, pattern = pick(TEXTS, t), pick(PATTERNS, p)
    n = enum_int(n, 0, 20)
    m = re.search(pattern, text)
    if native(call, 'grep', pattern, text) != (m.group(0) if m else None):
        return 'grep'
    groups = re.compile(pattern).groups
    if n <= groups:
        if native(call, 'grepn', pattern, text, n) != (m.group(n) if m else None):
            return 'grepn'
    if native(call, 'subst', pattern, '_', text) != re.sub(pattern, '_', text):
        return 'subst'
    parts = text.split(':')
    if n < len(parts) and native(call, 'splitcomp', text, ':', n) != parts[n]:
        return 'splitcomp'
    width = n + 5
    out = native(call, 'maxwidth', text, width)
    collapsed = ' '.join(text.split())
    if len(out) > width:
        return 'maxwidth-too-wide'
    if len(collapsed) <= width and out != collapsed:
        return 'maxwidth-changes-fitting-text'
    return 'ok'


STRING_SETS = [set(), {'a'}, {'b', 'a'}, {'x:1', 'a:2', 'a:1'}]


@cond('C18.string.sets', quick=120,
      bounds='joinstr / findfirst over sets of up to 3 strings: joinstr joins all members with commas; findfirst returns the '
             'first member in sorted order matching the pattern, or NULL',
      symbolic='(none)', enumerated='set, pattern', params={'k': int, 'p': int}, group='C18.string')
def string_sets(k, p):
    values, pattern = pick(STRING_SETS, k), pick(['a', '^x', 'zz', ''], p)
    return native(_sets_check, values, pattern)


def _sets_check(values, pattern):
    joined = call('joinstr', values)
    if sorted(joined.split(',')) != sorted(values) and not (not values and joined == ''):
        return 'joinstr'
    want = None
    for v in sorted(values):
        if re.match(pattern, v):
            want = v
            break
    if call('findfirst', pattern, values) != want:
        return 'findfirst'
    return 'ok'


# ---------------------------------------------------------------------------
# numerics and casts

@cond('C18.numeric', quick=240,
      bounds='abs, neg, round (1 and 2 arguments, digits -3..3), safediv over the decimal palette and ints -3..3 (divisor 0 '
             'included): equal decimal arithmetic',
      symbolic='(none)', enumerated='palette entries, ints', params={'x': int, 'y': int, 'n': int}, group='C18.numeric')
def numeric(x, y, n):
    dx, dy = pick(sym.PALETTE, x), pick(sym.PALETTE, y)
    n = enum_int(n, -3, 3)
    return native(_numeric_check, dx, dy, n)


def _numeric_check(dx, dy, n):
    if call('abs', dx) != abs(dx) or call('neg', dx) != -dx:
        return 'abs-neg'
    if call('round', dx) != round(dx, 0) or call('round', dx, n) != round(dx, n):
        return 'round-decimal'
    if call('round', n * 7) != n * 7 or call('round', 1234 * n, -2) != round(1234 * n, -2):
        return 'round-int'
    want = D(0) if dy == 0 else dx / dy
    if call('safediv', dx, dy) != want:
        return 'safediv-decimal'
    if call('safediv', dx, n) != (D(0) if n == 0 else dx / n):
        return 'safediv-int'
    return 'ok'


CAST_INPUTS = [
    0, 1, -7, 10 ** 30, True, False, D('0'), D('2.50'), D('-2.50'), D('1E+2'), D('NaN'), D('Infinity'), D('-Infinity'),
    D('1E+400'), '', ' ', '12', '-3', '2.50', '1e3', 'abc', 'NaN', 'Infinity', '9' * 5000, '2020-02-29', '2020-02-30',
    '2020-2-9', '20200229', 'TRUE', datetime.date(2020, 2, 29), None,
]


def make_cast(name):
    @cond(f'C18.cast.{name}', quick=120,
          bounds=f'{name}(x) for {len(CAST_INPUTS)} inputs of every type including NaN, Infinity, huge exponents, the empty '
                 'string, non-numeric and 5000-digit strings, invalid dates: the converted value or NULL, never an exception',
          symbolic='(none)', enumerated='input (selector), declared operand type (typed / untyped)',
          params={'i': int, 'untyped': bool}, group='C18.cast')
    def cast(i, untyped):
        x = pick(CAST_INPUTS, i)
        if x is None:
            return 'ok'
        dtype = object if untyped else _dtype(x)
        fcls = refsem.lookup(FUNCTIONS, name, [dtype])
        if fcls is None:
            cover('no-overload')
            return 'ok'
        try:
            got = native(fcls(_conn(), [Stub(dtype, x, [], 0)]), None)
        except Exception as exc:
            return f'raises-{type(exc).__name__}'
        want = native(refsem.CASTS[{'int': int, 'decimal': D, 'str': str, 'bool': bool, 'date': datetime.date}[name]], x)
        if name == 'date' and isinstance(x, str):
            # only the YYYY-MM-DD spelling is specified
            want = native(refsem.cast_date, x) if re.fullmatch(r'\d{4}-\d{2}-\d{2}', x) else got
        if name == 'decimal' and isinstance(want, D) and want.is_nan():
            if not (isinstance(got, D) and got.is_nan()):
                return 'value'
            return 'ok'
        if not same(got, want):
            return 'value'
        return 'ok'


for _name in ('int', 'decimal', 'str', 'bool', 'date'):
    make_cast(_name)


@cond('C18.cast.date3', quick=120,
      bounds='date(y, m, d) for y in -1..10000, m in -1..14, d in -1..33 (symbolic): the date when it exists, else NULL',
      symbolic='y, m, d', params={'y': int, 'm': int, 'd': int}, group='C18.cast')
def cast_date3(y, m, d):
    assume(-1 <= y <= 10000 and -1 <= m <= 14 and -1 <= d <= 33)
    try:
        got = call('date', y, m, d)
    except Exception as exc:
        return f'raises-{type(exc).__name__}'
    valid = 1 <= y <= 9999 and 1 <= m <= 12 and 1 <= d <= 31
    if valid:
        if m in (4, 6, 9, 11):
            valid = d <= 30
        elif m == 2:
            leap = (y % 4 == 0 and y % 100 != 0) or y % 400 == 0
            valid = d <= (29 if leap else 28)
    if valid:
        if got is None or (got.year, got.month, got.day) != (y, m, d):
            return 'valid-date'
    elif got is not None:
        return 'invalid-date-not-null'
    return 'ok'


# ---------------------------------------------------------------------------
# the case-sensitive string functions keep their definition whatever used the same pattern text before

@cond('C18.string.regex-history', quick=120,
      bounds='fixture ledger; in one process: a statement using has_account(p) or account ~ p (both ignore case) first, then grep(p, '
             'account), grepn(p, account, 0), subst(p, "_", account) and findfirst(p, other_accounts) for p in {bank, ASSETS, Food, x}: the '
             'string functions still equal their (case-sensitive) re definitions; and in the opposite order has_account still '
             'ignores case',
      symbolic='(none)', enumerated='pattern, which statement comes first', params={'pi': int, 'first': int})
def string_regex_history(pi, first):
    pattern = pick(['bank', 'ASSETS', 'Food', 'x'], pi)
    first = enum_int(first, 0, 2)

    def run():
        from .. import ledger
        conn = ledger.connect()
        accounts = sorted({r[0] for r in conn.execute('SELECT DISTINCT account').fetchall()})

        def functions():
            rows = conn.execute(f"SELECT DISTINCT account, grep('{pattern}', account) AS g, grepn('{pattern}', account, 0) AS n, "
                                f"subst('{pattern}', '_', account) AS u ORDER BY account").fetchall()
            want = []
            for acc in accounts:
                m = re.search(pattern, acc)
                want.append((acc, m.group(0) if m else None, m.group(0) if m else None, re.sub(pattern, '_', acc)))
            return 'ok' if rows == want else 'string-function-differs-from-its-definition'

        def insensitive():
            got = sorted({r[0] for r in conn.execute(f"SELECT DISTINCT account FROM has_account('{pattern}') WHERE account ~ '{pattern}'")
                          .fetchall()})
            want = [a for a in accounts if re.search(pattern, a, re.IGNORECASE)]
            return 'ok' if got == want else 'case-insensitive-match-differs'
        order = [[functions, insensitive, functions], [insensitive, functions, insensitive], [functions, functions]][first]
        for step in order:
            label = step()
            if label != 'ok':
                return label
        return 'ok'
    return native(run)
