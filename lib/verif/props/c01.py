"""C01 - Row-level evaluation: WHERE filtering, expression values and NULL semantics."""

import datetime
import decimal
from typing import List, Optional, Tuple

from dateutil.relativedelta import relativedelta

import beanquery
from beanquery import query_compile, query_env, types
from beanquery.parser import ast
from beanquery.query_compile import EvalNode, OPERATORS

from .. import refsem, sym
from ..h import cond, assume, cover, pick, enum_int, native
from ..printer import sel, col, const, target, func, select as print_select
from ..tables import HTable, connect, parse

D = decimal.Decimal


class Stub(EvalNode):
    """A child node returning a fixed (symbolic) value and logging its evaluations."""
    __slots__ = ('value', 'log', 'tag')

    def __init__(self, dtype, value, log, tag):
        super().__init__(dtype)
        self.value = value
        self.log = log
        self.tag = tag

    def __call__(self, context):
        self.log.append(self.tag)
        return self.value


def same(a, b):
    """Equality of cell values that also distinguishes bool/int and Decimal/int."""
    if a is None or b is None:
        return a is None and b is None
    if isinstance(a, bool) != isinstance(b, bool):
        return False
    if isinstance(a, D) != isinstance(b, D):
        return False
    return a == b


def same_rows(got, want):
    if len(got) != len(want):
        return False
    for g, w in zip(got, want):
        if len(g) != len(w):
            return False
        for a, b in zip(g, w):
            if not same(a, b):
                return False
    return True


def tname(t):
    return getattr(t, '__name__', str(t))


# ---------------------------------------------------------------------------
# C01.node: every operator class with stub children

COLLECTIONS = {
    set: [set(), {1}, {1, 2}, {0, -1}],
    list: [[], [1], [2, 1], [1, 1, 0], [None, 1]],
    dict: [{}, {1: 'a'}, {0: None, 2: 'b'}],
}
PATTERNS = ['a', '^a', 'a|b', '.', 'A', 'b$', '']   # valid regular expressions only


ORDERING = (ast.Less, ast.LessEq, ast.Greater, ast.GreaterEq, ast.Between)
STRINGS = ['', 'a', 'ab', 'b', 'B', 'TRUE', 'TR', 'a ']


def operand_domains(astcls, intypes):
    """Domains for the operands of one overload; several variants for Any."""
    variants = [[]]
    for i, t in enumerate(intypes):
        if t is types.Any:
            if astcls in (ast.In, ast.NotIn):
                options = [sym.VInt(-1, 3)]
            else:
                options = [sym.VInt(), sym.VBool(), sym.VStr(2)]
        elif t in COLLECTIONS:
            options = [sym.VChoice(COLLECTIONS[t], t, nullable=True)]
        elif t is str and astcls in (ast.Match, ast.NotMatch) and i == 1:
            options = [sym.VChoice(PATTERNS, str, nullable=True)]
        elif t is int and (astcls is ast.Div or D in intypes):
            # a symbolic int cannot meet a C Decimal (R4): enumerate
            options = [sym.VEnumInt(-3, 3)]
        elif t is int and astcls is ast.Mod:
            options = [sym.VInt(-40, 40)]
        elif t is int and datetime.date in intypes:
            options = [sym.VInt(-100000, 100000)]
        elif t is relativedelta and datetime.date in intypes:
            options = [sym.VDelta(40, months=1, years=0)]
        elif t is datetime.date and (len(intypes) == 3 and i > 0):
            options = [sym.VDate(1900, 2100, maxday=28)]
        elif t is datetime.date:
            options = [sym.VDate(1900, 2100)]
        elif t is str and astcls in (ast.Match, ast.NotMatch):
            options = [sym.VStr(3, alphabet='abA')]
        elif t is str and astcls in ORDERING:
            # CrossHair's symbolic string ordering mis-models prefixes: concrete strings
            options = [sym.VChoice(STRINGS, str, nullable=True)]
        elif t is D:
            options = [sym.VDec(sym.SMALL_PALETTE + [D('1E+2')])] if len(intypes) == 3 else [sym.VDec()]
        else:
            options = [sym.domain_for(t)]
        variants = [v + [o] for v in variants for o in options]
    return variants


def _node_oracle(astcls, values):
    if issubclass(astcls, ast.Between):
        return refsem.apply_between(*values)
    if issubclass(astcls, ast.UnaryOp):
        return refsem.apply_unary(astcls, values[0])
    return refsem.apply_binary(astcls, values[0], values[1])


def make_node(astcls, opcls, domains, variant):
    intypes = list(opcls.__intypes__)
    sig = ','.join(tname(t) for t in intypes)
    prefixes = [f'a{i}' for i in range(len(intypes))]
    doms = dict(zip(prefixes, domains))
    vtag = '' if variant is None else f'.{variant}'
    heavy = astcls in (ast.Match, ast.NotMatch) or relativedelta in intypes or datetime.date in intypes
    quick = 180 if heavy else 60

    @cond(f'C01.node.{astcls.__name__}[{sig}]{vtag}', quick=quick, thorough=quick * 4,
          bounds=sym.describe_all(doms), symbolic='operand values and NULL-ness',
          enumerated='overload (one condition per registered overload), palette entries',
          params=sym.all_params(doms), group='C01.node')
    def node_cond(**kw):
        values = [doms[p].build(p, kw) for p in prefixes]
        log = []
        stubs = [Stub(d.dtype if t is types.Any else t, v, log, i)
                 for i, (t, d, v) in enumerate(zip(intypes, domains, values))]
        node = opcls(*stubs)
        got = node(None)
        want = _node_oracle(astcls, values)
        if not same(got, want):
            return 'value'
        if astcls in (ast.Add, ast.Sub) and sorted(tname(t) for t in intypes) == ['date', 'int'] and got is not None:
            # independent formulation: the day difference is the integer operand
            x, k = (values[0], values[1]) if intypes[0] is datetime.date else (values[1], values[0])
            diff = (got - x).days
            if diff != (k if astcls is ast.Add else -k):
                return 'date-int-inverse-law'
        if len(set(log)) != len(log):
            return 'operand-evaluated-twice'
        if log != sorted(log):
            return 'evaluation-order'
        if want is None:
            cover('null-result')
        else:
            cover('value-result')
        return 'ok'


def _all_node_conditions():
    for astcls, overloads in OPERATORS.items():
        for opcls in overloads:
            variants = operand_domains(astcls, list(opcls.__intypes__))
            for n, domains in enumerate(variants):
                make_node(astcls, opcls, domains, None if len(variants) == 1 else n)


_all_node_conditions()


# ---------------------------------------------------------------------------
# C01.bool: AND / OR / COALESCE with 1..3 operands

def make_boolop(kind, arity):
    cls = {'and': query_compile.EvalAnd, 'or': query_compile.EvalOr, 'coalesce': query_compile.EvalCoalesce}[kind]
    if kind == 'coalesce':
        doms = {f'a{i}': sym.VInt() for i in range(arity)}
    else:
        doms = {f'a{i}': sym.VBool() for i in range(arity)}

    @cond(f'C01.bool.{kind}{arity}', quick=60, bounds=sym.describe_all(doms),
          symbolic='operand values and NULL-ness', enumerated='arity 1..3', params=sym.all_params(doms),
          group='C01.bool')
    def boolop(**kw):
        values = [doms[f'a{i}'].build(f'a{i}', kw) for i in range(arity)]
        log = []
        stubs = [Stub(bool if kind != 'coalesce' else int, v, log, i) for i, v in enumerate(values)]
        got = cls(stubs)(None)
        thunks = [(lambda v=v: v) for v in values]
        if kind == 'and':
            want = refsem.op_and(thunks)
        elif kind == 'or':
            want = refsem.op_or(thunks)
        else:
            want = refsem.op_coalesce(thunks)
        if not same(got, want):
            return 'value'
        if len(set(log)) != len(log) or log != sorted(log):
            return 'evaluation-order'
        if kind == 'and':
            # AND stops at its first NULL or false operand
            stop = len(values)
            for i, v in enumerate(values):
                if v is None or not v:
                    stop = i + 1
                    break
            if len(log) != stop:
                return 'and-does-not-stop'
        if kind == 'coalesce':
            stop = len(values)
            for i, v in enumerate(values):
                if v is not None:
                    stop = i + 1
                    break
            if len(log) != stop:
                return 'coalesce-does-not-stop'
        return 'ok'


for _kind in ('and', 'or', 'coalesce'):
    for _n in (1, 2, 3):
        make_boolop(_kind, _n)


# ---------------------------------------------------------------------------
# C01.func: the function() wrapper: NULL iff any argument is NULL

def make_func(arity, mode):
    calls = []

    def callee(*args):
        calls.append(args)
        if mode != 'plain':
            args = args[1:]
        return 1000 + sum((i + 1) * a for i, a in enumerate(args))
    name = f'verif_f{arity}_{mode}'
    query_env.function([int] * arity, int, pass_row=(mode == 'row'),
                       pass_context=(mode == 'context') or None, name=name)(callee)
    fcls = query_compile.FUNCTIONS[name][0]
    doms = {f'a{i}': sym.VInt() for i in range(arity)}

    @cond(f'C01.func.{mode}{arity}', quick=60, bounds=sym.describe_all(doms),
          symbolic='argument values and NULL-ness', enumerated='arity 0..3, plain / pass_row / pass_context',
          params=sym.all_params(doms) or {'dummy': bool}, group='C01.func')
    def func_cond(**kw):
        values = [doms[f'a{i}'].build(f'a{i}', kw) for i in range(arity)]
        log = []
        del calls[:]
        stubs = [Stub(int, v, log, i) for i, v in enumerate(values)]
        context = object()
        row = object()
        node = fcls(context, stubs)
        got = node(row)
        if any(v is None for v in values):
            if got is not None:
                return 'null-argument-not-null-result'
            if calls:
                return 'callee-called-with-null'
            cover('null')
        else:
            want = 1000 + sum((i + 1) * a for i, a in enumerate(values))
            if not same(got, want):
                return 'value'
            if len(calls) != 1:
                return 'callee-call-count'
            if mode == 'row' and calls[0][0] is not row:
                return 'row-not-passed'
            if mode == 'context' and calls[0][0] is not context:
                return 'context-not-passed'
            cover('value')
        if len(set(log)) != len(log):
            return 'operand-evaluated-twice'
        return 'ok'


for _mode in ('plain', 'row', 'context'):
    for _n in (0, 1, 2, 3):
        make_func(_n, _mode)


# ---------------------------------------------------------------------------
# C01.dispatch: compile op(col, col) for every operand dtype pair

COLTYPES = [('i', int), ('d', D), ('b', bool), ('s', str), ('t', datetime.date), ('o', object)]
BINARY = [ast.Add, ast.Sub, ast.Mul, ast.Div, ast.Mod, ast.Equal, ast.NotEqual, ast.Less, ast.LessEq,
          ast.Greater, ast.GreaterEq, ast.Match, ast.NotMatch]
UNARY = [ast.Not, ast.Neg, ast.IsNull, ast.IsNotNull]


def _coldomain(dtype, astcls, other=None):
    if dtype is int and (astcls is ast.Div or other in (D, object)):
        return sym.VEnumInt(-3, 3)
    if dtype is int and astcls is ast.Mod:
        return sym.VInt(-40, 40)
    if dtype is int:
        return sym.VInt(-100000, 100000)
    if dtype is D:
        return sym.VDec(sym.SMALL_PALETTE + [D('1E+2')])
    if dtype is str and astcls in (ast.Match, ast.NotMatch):
        return sym.VChoice(['a', 'ab', 'A', 'b', '', '^a', 'a|b'], str, nullable=True)
    if dtype is str and (astcls in ORDERING or other is object):
        return sym.VChoice(STRINGS, str, nullable=True)
    if dtype is str:
        return sym.VStr(2)
    return sym.domain_for(dtype)


def _table(columns, row):
    return HTable('t', columns, [row])


def make_dispatch(astcls, lname, ltype):
    # one pair of domains per right dtype (the left domain may depend on it)
    doms = {rname: (_coldomain(ltype, astcls, rtype), _coldomain(rtype, astcls, ltype)) for rname, rtype in COLTYPES}
    params = {'rsel': int}
    for rname, (ldom, rdom) in doms.items():
        params.update(ldom.params('x' + rname))
        params.update(rdom.params('y' + rname))

    @cond(f'C01.dispatch.{astcls.__name__}.{tname(ltype)}', quick=120, thorough=480,
          bounds=f'left column {tname(ltype)}, right column of each of {[tname(t) for _, t in COLTYPES]}; one table '
                 f'row; value domains per pair: ' + '; '.join(
                     f'{rname}: {ld.describe()} / {rd.describe()}' for rname, (ld, rd) in doms.items()),
          symbolic='the row cells', enumerated='right operand dtype (selector), operator x left dtype (one condition each)',
          params=params, group='C01.dispatch')
    def dispatch(**kw):
        rname, rtype = pick(COLTYPES, kw['rsel'])
        columns = [('l', ltype), ('r', rtype)]
        node = astcls(col('l'), col('r'))
        stmt = sel([target(node, 'v')], 't')
        env = refsem.Env(columns)
        try:
            want_type = refsem.typeof(node, env)
            accepted = True
        except refsem.Reject:
            accepted = False
        try:
            connect(t=_table(columns, (None, None))).compile(stmt)
            compiled = True
        except beanquery.CompilationError:
            compiled = False
        if compiled != accepted:
            return 'rejected-but-overload-exists' if accepted else 'accepted-without-overload'
        if not accepted:
            cover('rejected')
            return 'ok'
        ldom, rdom = doms[rname]
        x = ldom.build('x' + rname, kw)
        y = rdom.build('y' + rname, kw)
        conn = connect(t=_table(columns, (x, y)))
        cur = conn.execute(stmt)
        if cur.description[0].datatype is not want_type:
            return 'announced-datatype'
        rows = cur.fetchall()
        want = refsem.eval_expr(node, (x, y), env)
        if len(rows) != 1 or len(rows[0]) != 1:
            return 'shape'
        if not same(rows[0][0], want):
            return 'value'
        cover('accepted-null' if want is None else 'accepted-value')
        return 'ok'


for _cls in BINARY:
    for _lname, _ltype in COLTYPES:
        make_dispatch(_cls, _lname, _ltype)


def make_dispatch_unary(astcls):
    doms = {name: _coldomain(t, astcls) for name, t in COLTYPES}
    params = {'tsel': int}
    for name, dom in doms.items():
        params.update(dom.params('x' + name))

    @cond(f'C01.dispatch.{astcls.__name__}', quick=120,
          bounds='operand column of each of int, Decimal, bool, str, date, object; one table row',
          symbolic='the cell', enumerated='operand dtype (selector)', params=params, group='C01.dispatch')
    def dispatch_unary(**kw):
        name, dtype = pick(COLTYPES, kw['tsel'])
        columns = [('l', dtype)]
        node = astcls(col('l'))
        stmt = sel([target(node, 'v')], 't')
        env = refsem.Env(columns)
        try:
            want_type = refsem.typeof(node, env)
            accepted = True
        except refsem.Reject:
            accepted = False
        try:
            connect(t=_table(columns, (None,))).compile(stmt)
            compiled = True
        except beanquery.CompilationError:
            compiled = False
        if compiled != accepted:
            return 'rejected-but-overload-exists' if accepted else 'accepted-without-overload'
        if not accepted:
            cover('rejected')
            return 'ok'
        x = doms[name].build('x' + name, kw)
        conn = connect(t=_table(columns, (x,)))
        cur = conn.execute(stmt)
        if cur.description[0].datatype is not want_type:
            return 'announced-datatype'
        rows = cur.fetchall()
        if len(rows) != 1 or not same(rows[0][0], refsem.eval_expr(node, (x,), env)):
            return 'value'
        cover('accepted')
        return 'ok'


for _cls in UNARY:
    make_dispatch_unary(_cls)


# ---------------------------------------------------------------------------
# C01.rows: WHERE keeps exactly the true rows, in order; FROM expression AND-ed

@cond('C01.rows.where', quick=120, thorough=600,
      bounds='table of <=3 rows (w bool, v int), cells symbolic or NULL',
      symbolic='row count, every cell', must_cover=('kept', 'dropped-null', 'dropped-false'))
def rows_where(rows: List[Tuple[Optional[bool], Optional[int]]]) -> str:
    assume(len(rows) <= 3)
    columns = [('w', bool), ('v', int)]
    table = HTable('t', columns, list(rows))
    conn = connect(t=table)
    cur = conn.execute(parse('SELECT v, v + 1 AS u, w FROM #t WHERE w'))
    got = cur.fetchall()
    want = []
    for w, v in rows:
        if w is None:
            cover('dropped-null')
        elif not w:
            cover('dropped-false')
        else:
            cover('kept')
            want.append((v, None if v is None else v + 1, w))
    if not same_rows(got, want):
        return 'rows'
    if [c.name for c in cur.description] != ['v', 'u', 'w']:
        return 'names'
    if table.scans != 1:
        return 'table-scanned-more-than-once'
    return 'ok'


WHERE_CONSTANT_FORMS = ['p / q > r', 'p % q = r', 'NULL', 'r BETWEEN p AND p / q', 'NOT p / q > r', 'p = q',
                        'p / q > r AND v IS NOT NULL', 'p / q > r OR v IS NULL', 'coalesce(p / q > r, p = r)']


def _where_constant(form, p, q, r):
    P, Q, R = const(p), const(q), const(r)
    quot = ast.Greater(ast.Div(P, Q), R)
    return [quot, ast.Equal(ast.Mod(P, Q), R), const(None), ast.Between(R, P, ast.Div(P, Q)), ast.Not(quot), ast.Equal(P, Q),
            ast.And([quot, ast.IsNotNull(col('v'))]), ast.Or([quot, ast.IsNull(col('v'))]),
            ast.Function('coalesce', [quot, ast.Equal(P, R)])][form]


@cond('C01.rows.where-constant', quick=120, thorough=300,
      bounds=f'table of 2 rows (v symbolic int or NULL); WHERE conditions without (or with only a trailing) column reference, '
             f'which the compiler folds to a constant: {WHERE_CONSTANT_FORMS} with the literals p, q, r from 0..2 (division / '
             'modulo by zero give a constant NULL): all rows are kept iff the condition is true, none if it is NULL or false',
      symbolic='v cells', enumerated='condition form, literals',
      params={'v0': Optional[int], 'v1': Optional[int], 'form': int, 'p': int, 'q': int, 'r': int})
def rows_where_constant(v0, v1, form, p, q, r):
    form = enum_int(form, 0, len(WHERE_CONSTANT_FORMS) - 1)
    p, q, r = enum_int(p, 0, 2), enum_int(q, 0, 2), enum_int(r, 0, 2)
    columns = [('v', int)]
    rows = [(v0,), (v1,)]
    stmt = sel([target(col('v'))], 't', where=_where_constant(form, p, q, r))
    text = native(print_select, stmt)
    conn = connect(t=HTable('t', columns, rows))
    got = conn.execute(parse(text)).fetchall()
    want = refsem.Ref({'t': (columns, rows)}).select(stmt)
    if not same_rows(got, want.rows):
        return 'rows-kept-under-constant-condition'
    cover('kept' if want.rows else 'dropped')
    return 'ok'


REGEX_SUBJECTS = ['Assets:Bank', 'assets:bank', 'ASSETS:BANK', 'Expenses:Food', '']
REGEX_PATTERNS = ['bank', 'BANK', 'Bank', '^assets', 'Food$', 'x']
REGEX_STATEMENTS = [
    'SELECT s ~ {p} AS m, grep({p}, s) AS g, s !~ {p} AS n, subst({p}, "_", s) AS u FROM #t',
    'SELECT grep({p}, s) AS g, s ~ {p} AS m, subst({p}, "_", s) AS u, s !~ {p} AS n FROM #t',
    'SELECT grep({p}, s) AS g FROM #t WHERE s ~ {p}',
    'SELECT s FROM #t WHERE grep({p}, s) IS NOT NULL AND s !~ {p}',
]


@cond('C01.regex.families', quick=120,
      bounds=f'one-row table with s from {REGEX_SUBJECTS}; pattern from {REGEX_PATTERNS}; statements using the same pattern text with '
             'the case-insensitive operators (~, !~) and the case-sensitive functions (grep, subst) in either order, two '
             'statements one after the other in one process: every cell equals its re definition (search ignoring case / '
             'search respecting case), whichever family used the pattern first',
      symbolic='(none)', enumerated='subject, pattern, first and second statement',
      params={'si': int, 'pi': int, 'k1': int, 'k2': int},
      note='solver-enumerated and executed natively (regular expressions on symbolic strings are out of reach, R5)')
def regex_families(si, pi, k1, k2):
    import re
    s, p = pick(REGEX_SUBJECTS, si), pick(REGEX_PATTERNS, pi)
    k1, k2 = enum_int(k1, 0, len(REGEX_STATEMENTS) - 1), enum_int(k2, 0, len(REGEX_STATEMENTS) - 1)

    def run():
        import beanquery.query_env  # noqa: F401  (registers grep / subst)
        m = re.search(p, s, re.IGNORECASE) is not None
        sensitive = re.search(p, s)
        g = sensitive.group(0) if sensitive else None
        u = re.sub(p, '_', s)
        want = [[(m, g, not m, u)], [(g, m, u, not m)], [(g,)] if m else [], [(s,)] if (g is not None and not m) else []]
        conn = connect(t=HTable('t', [('s', str)], [(s,)]))
        for k in (k1, k2):
            got = conn.execute(parse(REGEX_STATEMENTS[k].format(p="'" + p + "'"))).fetchall()
            if got != want[k]:
                return f'regex-cell-differs-from-its-definition (statement {k})'
        return 'ok'
    return native(run)


PER_ROW_DECIMALS = [decimal.Decimal(x) for x in ('1.0', '1.00', '1', '0', '-0', '0.00', '2.50', '2.5')]
PER_ROW_OBJECTS = [1, True, decimal.Decimal('1.00'), 0, False, '', 'a']


@cond('C01.func.per-row', quick=120,
      bounds=f'3 rows whose cells are pairwise equal under == but distinguishable (decimals {[str(x) for x in PER_ROW_DECIMALS]}; '
             'untyped cells 1 / TRUE / 1.00 / 0 / FALSE); SELECT str(d), abs(d), neg(d), d + 0 and str(o), bool(o): every cell is computed '
             'from its own row (a value is never taken over from an earlier row with an equal argument)',
      symbolic='(none)', enumerated='cells', params={'i0': int, 'i1': int, 'i2': int, 'obj': bool})
def func_per_row(i0, i1, i2, obj):
    obj = bool(obj)
    palette = PER_ROW_OBJECTS if obj else PER_ROW_DECIMALS
    cells = [pick(palette, i) for i in (i0, i1, i2)]

    def run():
        import beanquery.query_env  # noqa: F401
        if obj:
            text, dtype = 'SELECT str(o) AS s, bool(o) AS b FROM #t', object
            bql_str = lambda v: 'TRUE' if v is True else ('FALSE' if v is False else str(v))    # noqa: E731
            want = [(bql_str(v), bool(v)) for v in cells]
        else:
            text, dtype = 'SELECT str(o) AS s, abs(o) AS a, neg(o) AS n, o + 0 AS z FROM #t', decimal.Decimal
            want = [(str(v), abs(v), -v, v + 0) for v in cells]
        got = connect(t=HTable('t', [('o', dtype)], [(v,) for v in cells])).execute(parse(text)).fetchall()
        # compared by text: 1.0 and 1.00 are equal but not the same value
        if [tuple(repr(x) for x in row) for row in got] != [tuple(repr(x) for x in row) for row in want]:
            return 'cell-not-computed-from-its-own-row'
        return 'ok'
    return native(run)


class _UTable(HTable):
    def update(self, **kwargs):
        return self


@cond('C01.rows.from', quick=180, thorough=600,
      bounds='table of <=2 rows (f bool, w bool, v int) registered as the default table; FROM f WHERE w',
      symbolic='row count, every cell')
def rows_from(rows: List[Tuple[Optional[bool], Optional[bool], Optional[int]]], has_where: bool) -> str:
    assume(len(rows) <= 2)
    columns = [('f', bool), ('w', bool), ('v', int)]
    table = _UTable('postings', columns, list(rows))
    conn = connect(postings=table)
    text = 'SELECT v FROM f WHERE w' if has_where else 'SELECT v FROM f'
    got = conn.execute(parse(text)).fetchall()
    want = []
    for f, w, v in rows:
        if f is not None and f and (not has_where or (w is not None and w)):
            want.append((v,))
    if not same_rows(got, want):
        return 'rows'
    return 'ok'


@cond('C01.rows.empty', quick=30, bounds='empty table; WHERE present or absent', symbolic='presence of WHERE')
def rows_empty(has_where: bool) -> str:
    table = HTable('t', [('w', bool), ('v', int)], [])
    conn = connect(t=table)
    cur = conn.execute(parse('SELECT v FROM #t WHERE w' if has_where else 'SELECT v FROM #t'))
    if cur.fetchall() != [] or cur.rowcount != 0:
        return 'rows'
    return 'ok'


# ---------------------------------------------------------------------------
# C01.pipe: depth-2 shapes through print -> parse -> compile -> execute

INT_PARENTS = [ast.Add, ast.Sub, ast.Mul, ast.Mod, ast.Equal, ast.NotEqual, ast.Less, ast.LessEq,
               ast.Greater, ast.GreaterEq]
INT_CHILDREN = ['col', 'add', 'sub', 'mul', 'neg', 'const', 'coalesce']


def _int_child(kind, a, b):
    if kind == 'col':
        return col(a)
    if kind == 'add':
        return ast.Add(col(a), col(b))
    if kind == 'sub':
        return ast.Sub(col(a), col(b))
    if kind == 'mul':
        return ast.Mul(col(a), const(3))
    if kind == 'neg':
        return ast.Neg(col(a))
    if kind == 'const':
        return const(7)
    if kind == 'coalesce':
        return func('coalesce', col(a), col(b))
    raise KeyError(kind)


QUICK_CHILDREN = ['col', 'add', 'neg', 'coalesce', 'const']


def _pipe_body(parent, rows, lkind, rkind, as_where):
    if parent is ast.Mod:
        for r in rows:
            for v in r:
                assume(v is None or -30 <= v <= 30)
    left = _int_child(lkind, 'a', 'b')
    right = _int_child(rkind, 'c', 'a')
    node = parent(left, right)
    columns = [('a', int), ('b', int), ('c', int)]
    if as_where:
        if refsem.typeof(node, refsem.Env(columns)) is not bool:
            node = ast.IsNotNull(node)
        stmt = sel([target(col('a'), 'a')], 't', where=node)
    else:
        stmt = sel([target(node, 'v'), target(col('b'), None)], 't')
    text = native(print_select, stmt)
    table = HTable('t', columns, list(rows))
    conn = connect(t=table)
    cur = conn.execute(parse(text))
    got = cur.fetchall()
    want = refsem.Ref({'t': (columns, list(rows))}).select(stmt)
    if not same_rows(got, want.rows):
        return 'rows'
    if [c.name for c in cur.description] != want.names:
        return 'names'
    return 'ok'


def make_pipe(parent):
    @cond(f'C01.pipe.{parent.__name__}', quick=150, thorough=None,
          bounds='table of one row x 3 int columns (symbolic or NULL; range +-30 for Mod); '
                 'parent operator over two depth-1 children; used as target and as WHERE',
          symbolic='every cell', enumerated=f'child shapes {QUICK_CHILDREN} x 2 positions, target/WHERE',
          group='C01.pipe')
    def pipe(row: Tuple[Optional[int], Optional[int], Optional[int]], lk: int, rk: int, as_where: bool) -> str:
        return _pipe_body(parent, [row], pick(QUICK_CHILDREN, lk), pick(QUICK_CHILDREN, rk), as_where)

    for lkind in INT_CHILDREN:
        def make(lkind=lkind):
            @cond(f'C01.pipe2.{parent.__name__}.{lkind}', quick=None, thorough=600,
                  bounds='table of <=2 rows x 3 int columns (symbolic or NULL; range +-30 for Mod); '
                         'parent operator over two depth-1 children; used as target and as WHERE',
                  symbolic='row count, every cell',
                  enumerated=f'left child {lkind}; right child shapes {INT_CHILDREN}; target/WHERE',
                  group='C01.pipe')
            def pipe2(rows: List[Tuple[Optional[int], Optional[int], Optional[int]]], rk: int, as_where: bool) -> str:
                assume(len(rows) <= 2)
                return _pipe_body(parent, list(rows), lkind, pick(INT_CHILDREN, rk), as_where)
        make()


for _p in INT_PARENTS:
    make_pipe(_p)


BOOL_SHAPES = [
    lambda: ast.And([ast.Less(col('a'), col('b')), col('p')]),
    lambda: ast.Or([ast.Less(col('a'), col('b')), col('p')]),
    lambda: ast.Not(ast.Less(col('a'), col('b'))),
    lambda: ast.Not(ast.And([col('p'), col('q')])),
    lambda: ast.And([ast.Or([col('p'), col('q')]), ast.IsNull(col('a'))]),
    lambda: ast.Or([ast.And([col('p'), col('q')]), ast.IsNotNull(col('b'))]),
    lambda: ast.Between(col('a'), col('b'), const(5)),
    lambda: ast.Between(ast.Add(col('a'), const(1)), const(0), col('b')),
    lambda: ast.IsNull(ast.Add(col('a'), col('b'))),
    lambda: ast.Equal(func('coalesce', col('a'), const(0)), col('b')),
    lambda: ast.In(col('a'), const([1, 2, 3])),
    lambda: ast.NotIn(col('a'), const([0, 5])),
    lambda: ast.And([col('p'), col('q'), ast.Greater(col('a'), const(0))]),
    lambda: ast.Or([col('p'), col('q'), ast.Greater(col('a'), const(0))]),
]


def _pipe_bool_body(k, rows, as_where):
    node = BOOL_SHAPES[k]()
    columns = [('a', int), ('b', int), ('p', bool), ('q', bool)]
    if as_where:
        stmt = sel([target(col('a'), None), target(col('p'), None)], 't', where=node)
    else:
        stmt = sel([target(node, 'v')], 't')
    text = native(print_select, stmt)
    conn = connect(t=HTable('t', columns, list(rows)))
    got = conn.execute(parse(text)).fetchall()
    want = refsem.Ref({'t': (columns, list(rows))}).select(stmt)
    if not same_rows(got, want.rows):
        return 'rows'
    return 'ok'


def make_pipe_bool(k):
    @cond(f'C01.pipe.bool{k}', quick=120, thorough=None,
          bounds='table of one row (a int, b int, p bool, q bool), cells symbolic or NULL; '
                 'boolean shape used as target and as WHERE',
          symbolic='every cell', enumerated='shape (one condition each), target/WHERE',
          group='C01.pipe')
    def pipe_bool(row: Tuple[Optional[int], Optional[int], Optional[bool], Optional[bool]], as_where: bool) -> str:
        return _pipe_bool_body(k, [row], as_where)

    @cond(f'C01.pipe2.bool{k}', quick=None, thorough=600,
          bounds='table of <=2 rows (a int, b int, p bool, q bool), cells symbolic or NULL; '
                 'boolean shape used as target and as WHERE',
          symbolic='row count, every cell', enumerated='shape (one condition each), target/WHERE',
          group='C01.pipe')
    def pipe_bool2(rows: List[Tuple[Optional[int], Optional[int], Optional[bool], Optional[bool]]],
                   as_where: bool) -> str:
        assume(len(rows) <= 2)
        return _pipe_bool_body(k, list(rows), as_where)


for _k in range(len(BOOL_SHAPES)):
    make_pipe_bool(_k)
