"""C19 - Shell prints what the API returns; settings behave as a typed key-value store."""

import contextlib
import io
import os
import sys
import tempfile
import warnings

import beanquery
from beanquery import shell as bshell
from beanquery.numberify import numberify_results

from .. import ledger
from ..h import cond, assume, cover, pick, enum_int, native

BOOL_SETTINGS = ['boxed', 'expand', 'narrow', 'numberify', 'pager', 'spaced', 'unicode']
ALL_SETTINGS = ['boxed', 'expand', 'format', 'narrow', 'nullvalue', 'numberify', 'pager', 'spaced', 'unicode']
TRUE_SPELLINGS = ['1', 'true', 't', 'yes', 'y', 'on', 'TRUE', 'On', ' yes ']
FALSE_SPELLINGS = ['0', 'false', 'f', 'no', 'n', 'off', 'FALSE', ' Off']
OTHER_SPELLINGS = ['', 'maybe', '2', 'text', 'csv', 'TEXT', 'Csv', ' text', 'json', 'tru', 'None', 'x y']
VALUES = TRUE_SPELLINGS + FALSE_SPELLINGS + OTHER_SPELLINGS
UNKNOWN_NAMES = ['foo', 'Boxed', 'todict', 'getstr', 'setstr', '_parse_bool', '', 'format ']

_LEDGER_FILE = []


def ledger_file(text=None):
    """The fixture ledger written to a scratch file (created by the check itself, removed at exit)."""
    key = text or ledger.LEDGER_TEXT
    for k, path in _LEDGER_FILE:
        if k == key:
            return path
    fd, path = tempfile.mkstemp(suffix='.beancount', prefix='verif-c19-')
    with os.fdopen(fd, 'w') as f:
        f.write(key)
    import atexit
    atexit.register(lambda: os.path.exists(path) and os.remove(path))
    _LEDGER_FILE.append((key, path))
    return path


class Capture:
    """Runs shell commands capturing the output file, stdout and stderr."""

    def __init__(self, filename=None, **kw):
        self.out = io.StringIO()
        self.err = io.StringIO()
        self.stdout = io.StringIO()
        with self._redirect():
            self.shell = bshell.BQLShell(filename, self.out, False, False, **kw)

    @contextlib.contextmanager
    def _redirect(self):
        with contextlib.redirect_stderr(self.err), contextlib.redirect_stdout(self.stdout), warnings.catch_warnings():
            warnings.simplefilter('ignore')
            yield

    def run(self, line):
        mark = (len(self.out.getvalue()), len(self.err.getvalue()), len(self.stdout.getvalue()))
        with self._redirect():
            # cmdloop() reports exceptions as errors; do the same for a single command
            try:
                self.shell.onecmd(line)
                exc = None
            except Exception as e:  # noqa
                exc = e
        return (self.out.getvalue()[mark[0]:], self.err.getvalue()[mark[1]:], self.stdout.getvalue()[mark[2]:], exc)


def expected_after_set(name, value, before):
    """(valid, new store) from the wording: bool settings accept the listed spellings, format the known formats,
    nullvalue any string."""
    after = dict(before)
    if name not in ALL_SETTINGS:
        return False, after
    if name in BOOL_SETTINGS:
        norm = value.strip().lower()
        if norm in ('1', 'true', 't', 'yes', 'y', 'on'):
            after[name] = True
            return True, after
        if norm in ('0', 'false', 'f', 'no', 'n', 'off'):
            after[name] = False
            return True, after
        return False, after
    if name == 'format':
        if value in ('text', 'csv'):
            after[name] = value
            return True, after
        return False, after
    after[name] = value
    return True, after


def _settings_check(name, value, name2, value2):
    cap = Capture()
    store = cap.shell.settings.todict()
    for n, v in ((name, value), (name2, value2)):
        line = f'.set {n} "{v}"' if (' ' in v or v == '') else f'.set {n} {v}'
        out, err, stdout, exc = cap.run(line)
        if exc is not None:
            return f'raises-{type(exc).__name__}'
        valid, store = expected_after_set(n.strip(), v, store)
        if cap.shell.settings.todict() != store:
            return 'store-after-set' if valid else 'invalid-set-changes-a-setting'
        if valid and (err.strip() or out.strip()):
            return 'valid-set-prints'
        if not valid and 'error' not in err:
            return 'invalid-set-without-error-message'
    # .set NAME echoes the value, .set lists everything
    for n in ALL_SETTINGS:
        out, err, _, exc = cap.run(f'.set {n}')
        v = store[n]
        want = repr(v) if isinstance(v, str) else ('true' if v else 'false')
        if exc is not None or out.strip() != f'{n}: {want}':
            return 'set-echo'
    out, _, _, exc = cap.run('.set')
    if exc is not None or len(out.strip().splitlines()) != len(ALL_SETTINGS):
        return 'set-listing'
    return 'ok'


@cond('C19.settings', quick=300, thorough=900,
      bounds=f'two .set commands in sequence: names over the nine settings and {UNKNOWN_NAMES}; values over {len(VALUES)} '
             'spellings (valid / invalid booleans in any case and padding, formats, arbitrary strings, empty): exactly that '
             'setting changes iff the value is valid for its type; otherwise an error message and no change; .set echoes',
      symbolic='(none)', enumerated='names and values (selectors)', params={'n1': int, 'v1': int, 'n2': int, 'v2': int})
def settings(n1, v1, n2, v2):
    names = ALL_SETTINGS + UNKNOWN_NAMES
    name, value = pick(names, n1), pick(VALUES, v1)
    # the second command: a fixed small set, to exercise sequences
    name2 = pick(['format', 'foo'], n2)
    value2 = pick(['csv', 'x'], v2)
    return native(_settings_check, name, value, name2, value2)


# ---------------------------------------------------------------------------
# dispatch

LINES = [
    # (line, kind)  kind: 'command' | 'query' | 'unknown'
    ('.tables', 'command'), ('.describe postings', 'command'), ('.explain SELECT date', 'command'), ('.run', 'command'),
    ('.run food', 'command-query'), ('.help', 'command'), ('.errors', 'command'), ('.set boxed true', 'command'),
    ('.nosuch', 'unknown'), ('.select 1', 'unknown'), ('.SELECT 1', 'unknown'),
    ('set boxed true', 'command'), ('help', 'command'), ('run food', 'command-query'),
    ('SELECT date, account LIMIT 2', 'query'), ('select date LIMIT 1;', 'query'), ('BALANCES', 'query'),
    ('balances at units', 'query'), ("JOURNAL 'Bank'", 'query'), ('print from year = 2019', 'query'),
    ('SELECT set FROM #accounts', 'query-error'), ('tables', 'query-error'), ('describe postings', 'query-error'),
    ('selec 1', 'query-error'),
]


def _dispatch_check(k, preset):
    cap = Capture(ledger_file())
    sh = cap.shell
    if preset:
        cap.run('.set boxed true')
    before = sh.settings.todict()
    calls = {'execute': 0, 'do': 0}
    orig_execute = sh.execute

    def execute(*a, **kw):
        calls['execute'] += 1
        return orig_execute(*a, **kw)
    sh.execute = execute
    for attr in dir(sh):
        if attr.startswith('do_'):
            fn = getattr(sh, attr)

            def wrap(*a, _fn=fn, **kw):
                calls['do'] += 1
                return _fn(*a, **kw)
            setattr(sh, attr, wrap)
    line, kind = LINES[k]
    out, err, stdout, exc = cap.run(line)
    if kind == 'command':
        if calls['execute'] or calls['do'] != 1 or exc is not None:
            return f'dot-command-executed-as-query: {line}'
    elif kind == 'command-query':
        if calls['do'] != 1 or calls['execute'] != 1 or exc is not None:
            return f'run-command: {line}'
    elif kind == 'query':
        if calls['do'] or calls['execute'] != 1 or exc is not None:
            return f'query-executed-as-command: {line}'
        if not out.strip():
            return f'query-without-output: {line}'
    elif kind == 'query-error':
        if calls['do'] or calls['execute'] != 1:
            return f'query-executed-as-command: {line}'
        if not isinstance(exc, beanquery.ProgrammingError):
            return f'query-error-type: {line}'
    elif kind == 'unknown':
        if calls['execute'] or calls['do'] or exc is not None:
            return f'unknown-command-executed: {line}'
        if 'error' not in err:
            return f'unknown-command-without-error-message: {line}'
    if not line.lstrip('.').lower().startswith('set') and sh.settings.todict() != before:
        return f'settings-changed: {line}'
    return 'ok'


@cond('C19.dispatch', quick=300,
      bounds=f'{len(LINES)} input lines: dot-commands, legacy bare commands, unknown dot-commands, statements of every kind in any '
             'letter case, statements whose first word is a command name: dot-commands never reach the query executor, queries '
             'never reach a command handler, unknown commands print an error and change nothing',
      symbolic='(none)', enumerated='line, an earlier .set', params={'k': int, 'preset': bool})
def dispatch(k, preset):
    k = enum_int(k, 0, len(LINES) - 1)
    return native(_dispatch_check, k, bool(preset))


# ---------------------------------------------------------------------------
# output = rendering of the API result with the current settings

STATEMENTS = [
    'SELECT date, account, position, balance WHERE year = 2019 AND month = 1',
    'SELECT account, sum(position) AS total, count(*) AS n GROUP BY account ORDER BY account',
    'SELECT date, payee, narration, tags, number WHERE payee IS NOT NULL LIMIT 4',
    "SELECT date, meta('note') AS note, cost_number, cost_date FROM #postings",
    "SELECT account FROM #postings WHERE account = 'Nothing'",
    'BALANCES AT units',
    "JOURNAL 'Expenses'",
]


def _output_check(k, bits, fmt, nullvalue):
    cap = Capture(ledger_file())
    names = ['boxed', 'spaced', 'expand', 'narrow', 'unicode', 'numberify']
    for name, bit in zip(names, bits):
        _, err, _, exc = cap.run(f'.set {name} {"true" if bit else "false"}')
        if exc or err.strip():
            return 'set-failed'
    cap.run(f'.set format {fmt}')
    cap.run(f'.set nullvalue "{nullvalue}"')
    out, err, stdout, exc = cap.run(STATEMENTS[k])
    if exc is not None:
        return f'raises-{type(exc).__name__}'
    conn = beanquery.connect('beancount:' + ledger_file())
    cur = conn.execute(STATEMENTS[k])
    desc, rows = cur.description, cur.fetchall()
    dcontext = conn.options['dcontext']
    settings = cap.shell.settings.todict()
    if settings['numberify']:
        desc, rows = numberify_results(desc, rows, dcontext.build())
    want = io.StringIO()
    if fmt == 'text' and not rows:
        want.write('(empty)\n')
    else:
        # the API renderers themselves (not the shell's format adapters)
        from beanquery import query_render
        render = {'text': query_render.render_text, 'csv': query_render.render_csv}[fmt]
        render(desc, rows, dcontext, want, **settings)
    if out != want.getvalue():
        return 'shell-output-differs-from-rendered-api-result'
    return 'ok'


def make_output(k):
    @cond(f'C19.output.stmt{k}', quick=300, thorough=600,
          bounds=f'"{STATEMENTS[k]}" x every combination of boxed, spaced, expand, narrow, unicode, numberify x formats text and '
                 'csv x two NULL placeholders: the shell prints exactly the API result rendered with the current settings, '
                 '(empty) for an empty text result',
          symbolic='(none)', enumerated='setting bits, format, placeholder; statement (one condition each)',
          params={'b0': bool, 'b1': bool, 'b2': bool, 'b3': bool, 'b4': bool, 'b5': bool, 'csv': bool, 'nv': bool},
          per_path_timeout=120, group='C19.output')
    def output(b0, b1, b2, b3, b4, b5, csv, nv):
        bits = [bool(b) for b in (b0, b1, b2, b3, b4, b5)]
        return native(_output_check, k, bits, 'csv' if csv else 'text', 'NULL' if nv else '')


for _k in range(len(STATEMENTS)):
    make_output(_k)


# ---------------------------------------------------------------------------
# .run NAME

RUN_LEDGER = ledger.LEDGER_TEXT + '''
2019-01-12 query "noclose" "SELECT date, account, position FROM year = 2019"
2019-01-12 query "withclose" "SELECT date, account, position FROM year = 2019 CLOSE ON 2019-02-05"
2019-01-12 query "nofrom" "SELECT date, account, position WHERE account ~ 'Expenses'"
2019-01-12 query "table" "SELECT account FROM #accounts"
2019-01-12 query "bal" "BALANCES FROM year = 2019"
'''


def _run_check(k, boxed):
    cap = Capture(ledger_file(RUN_LEDGER))
    if boxed:
        cap.run('.set boxed true')
    name, typed = [
        ('noclose', 'SELECT date, account, position FROM year = 2019 CLOSE ON 2019-01-12'),
        ('withclose', 'SELECT date, account, position FROM year = 2019 CLOSE ON 2019-02-05'),
        ('nofrom', "SELECT date, account, position WHERE account ~ 'Expenses'"),
        ('table', 'SELECT account FROM #accounts'),
        ('bal', 'BALANCES FROM year = 2019'),
    ][k]
    out1, err1, so1, exc1 = cap.run(f'.run {name}')
    out2, err2, so2, exc2 = cap.run(typed)
    if exc1 is not None or exc2 is not None:
        return 'raises'
    if out1 != out2 or not out1.strip():
        return f'run-differs-from-typing-the-query: {name}'
    # typing the text of the named query afterwards is an ordinary statement: no default CLOSE date
    raw = {'noclose': 'SELECT date, account, position FROM year = 2019',
           'withclose': 'SELECT date, account, position FROM year = 2019 CLOSE ON 2019-02-05',
           'nofrom': "SELECT date, account, position WHERE account ~ 'Expenses'", 'table': 'SELECT account FROM #accounts',
           'bal': 'BALANCES FROM year = 2019'}[name]
    fresh = Capture(ledger_file(RUN_LEDGER))
    if boxed:
        fresh.run('.set boxed true')
    if cap.run(raw)[:2] != fresh.run(raw)[:2]:
        return f'typed-text-of-a-named-query-differs-after-run: {name}'
    out3, err3, _, exc3 = cap.run('.run nosuchquery')
    if exc3 is not None or 'error' not in err3 or out3:
        return 'unknown-query-name'
    return 'ok'


@cond('C19.run', quick=180,
      bounds='.run NAME for named queries with a FROM clause without CLOSE (CLOSE defaults to the query directive\'s date), with '
             'an explicit CLOSE, without FROM, FROM #table and BALANCES: output equals typing the statement',
      symbolic='(none)', enumerated='query, a setting', params={'k': int, 'boxed': bool})
def run(k, boxed):
    k = enum_int(k, 0, 4)
    return native(_run_check, k, bool(boxed))


# ---------------------------------------------------------------------------
# command line

ERROR_LEDGER = ledger.LEDGER_TEXT + '''
2019-03-01 * "unbalanced"
  Assets:Bank      5.00 USD
  Expenses:Food    1.00 USD
'''


def _cli_check(fmt, numberify, output, quiet):
    from click.testing import CliRunner
    path = ledger_file(ERROR_LEDGER)
    args = [path]
    if fmt is not None:
        args += ['-f', fmt]
    if numberify:
        args.append('-m')
    outfile = None
    if output:
        fd, outfile = tempfile.mkstemp(suffix='.out', prefix='verif-c19-')
        os.close(fd)
        args += ['-o', outfile]
    if quiet:
        args.append('-q')
    query = 'SELECT account, sum(position) AS total GROUP BY account ORDER BY account'
    args.append(query)
    try:
        runner = CliRunner(mix_stderr=False)
    except TypeError:
        runner = CliRunner()
    try:
        result = runner.invoke(bshell.main, args, catch_exceptions=True)
        text = open(outfile).read() if outfile else result.stdout
    finally:
        if outfile:
            os.remove(outfile)
    if result.exception is not None and not isinstance(result.exception, SystemExit):
        return f'raises-{type(result.exception).__name__}'
    conn = beanquery.connect('beancount:' + path)
    cur = conn.execute(query)
    desc, rows = cur.description, cur.fetchall()
    dcontext = conn.options['dcontext']
    if numberify:
        desc, rows = numberify_results(desc, rows, dcontext.build())
    want = io.StringIO()
    settings = bshell.Settings(format=fmt or 'text', numberify=numberify).todict()
    bshell.FORMATS[fmt or 'text'](desc, rows, want, dcontext=dcontext, **settings)
    if output and result.stdout.strip():
        return 'result-on-stdout-despite-output-option'
    # (the csv writer emits \r\n; click's captured stdout translates it)
    if text.replace('\r\n', '\n') != want.getvalue().replace('\r\n', '\n'):
        return 'result-differs'
    try:
        stderr = result.stderr
    except ValueError:
        stderr = ''
    reported = 'does not balance' in stderr or 'does not balance' in (result.stdout if not output else '')
    if quiet and reported:
        return 'errors-reported-despite-quiet'
    if not quiet and not reported:
        return 'errors-not-reported'
    return 'ok'


@cond('C19.cli', quick=180,
      bounds='bean-query entry point through click on a ledger with a load error: -f text/csv/absent, -m, -o FILE, -q in every '
             'combination: format and numberify as selected, the result redirected to the file, the error report suppressed by -q',
      symbolic='(none)', enumerated='option combination', params={'f': int, 'm': bool, 'o': bool, 'q': bool})
def cli(f, m, o, q):
    fmt = pick([None, 'text', 'csv'], f)
    return native(_cli_check, fmt, bool(m), bool(o), bool(q))
