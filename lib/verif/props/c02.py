"""C02 - Aggregation: groups partition rows, aggregates fold each group, HAVING filters."""

import decimal
from typing import List, Optional, Tuple

import beanquery
from beanquery import query_compile, query_env, query_execute, types
from beanquery.parser import ast

from .. import refsem, sym
from ..h import cond, assume, cover, pick, enum_int, native
from ..printer import sel, col, const, target, func, select as print_select
from ..tables import HTable, connect, parse
from .c01 import same, same_rows, Stub
from .c03 import ledger_tables, KEYDOM, _run_both

D = decimal.Decimal


# ---------------------------------------------------------------------------
# C02.step: one update of each aggregator from an arbitrary accumulated state

def _agg_class(name, dtype):
    from ..refsem import lookup
    stub_types = [types.Asterisk] if dtype is types.Asterisk else [dtype]
    return lookup(query_compile.FUNCTIONS, name, stub_types)


STEP_SPECS = [
    # (function, operand dtype, state domain, value domain)
    ('count', types.Asterisk, sym.VInt(0, None, nullable=False), None),
    ('count', int, sym.VInt(0, None, nullable=False), sym.VInt()),
    ('count', str, sym.VInt(0, None, nullable=False), sym.VStr(2)),
    ('sum', int, sym.VInt(nullable=False), sym.VInt()),
    ('sum', D, sym.VDec(nullable=False), sym.VDec()),
    ('first', int, sym.VInt(), sym.VInt()),
    ('first', bool, sym.VBool(), sym.VBool()),
    ('first', str, sym.VStr(2), sym.VStr(2)),
    ('last', int, sym.VInt(), sym.VInt()),
    ('last', bool, sym.VBool(), sym.VBool()),
    ('min', int, sym.VInt(), sym.VInt()),
    ('max', int, sym.VInt(), sym.VInt()),
    ('min', D, sym.VDec(), sym.VDec()),
    ('max', D, sym.VDec(), sym.VDec()),
    ('min', str, sym.VChoice(['', 'a', 'ab', 'b'], str, nullable=True), sym.VChoice(['', 'a', 'ab', 'b'], str, nullable=True)),
    ('max', str, sym.VChoice(['', 'a', 'ab', 'b'], str, nullable=True), sym.VChoice(['', 'a', 'ab', 'b'], str, nullable=True)),
]


def fold_step(name, state, value, star=False):
    """The fold step as worded in C02."""
    if name == 'count':
        if star:
            return state + 1
        return state + (0 if value is None else 1)
    if name == 'sum':
        return state if value is None else state + value
    if name == 'first':
        return state if state is not None else value       # skips leading NULLs
    if name == 'last':
        return value                                        # the last value of the group
    if name == 'min':
        if value is None:
            return state
        return value if state is None or value < state else state
    if name == 'max':
        if value is None:
            return state
        return value if state is None or state < value else state
    raise KeyError(name)


def fold_zero(name, dtype):
    if name == 'count':
        return 0
    if name == 'sum':
        return dtype()
    return None


def make_step(name, dtype, sdom, vdom):
    tn = '*' if dtype is types.Asterisk else dtype.__name__
    doms = {'s': sdom}
    if vdom is not None:
        doms['v'] = vdom
    doms['o'] = sym.VInt()      # the state of another aggregate in the same store

    @cond(f'C02.step.{name}[{tn}]', quick=60, bounds=sym.describe_all(doms),
          symbolic='accumulated state, the new row\'s operand value (or NULL), a neighbouring store slot',
          enumerated='aggregator class x operand type (one condition each)', params=sym.all_params(doms),
          group='C02.step',
          note='inductive step over the row loop: any number of rows follows if execute_select calls initialize once '
               'per group and update once per row (checked by C02.query)')
    def step(**kw):
        state = doms['s'].build('s', kw)
        value = doms['v'].build('v', kw) if vdom is not None else None
        other = doms['o'].build('o', kw)
        cls = _agg_class(name, dtype)
        if cls is None:
            return 'no-overload'
        log = []
        operand = Stub(dtype if dtype is not types.Asterisk else object, value, log, 0)
        node = cls(None, [operand])
        neighbour = query_env.Last(None, [Stub(int, 0, [], 1)])
        allocator = query_execute.Allocator()
        neighbour.allocate(allocator)
        node.allocate(allocator)
        store = allocator.create_store()
        # initialize: the fold's zero, and no other slot touched
        store[neighbour.handle] = other
        node.initialize(store)
        if not same(store[node.handle], fold_zero(name, dtype if dtype is not types.Asterisk else int)):
            return 'initialize'
        if not same(store[neighbour.handle], other):
            return 'initialize-touches-other-slot'
        # arbitrary accumulated state, one row
        store[node.handle] = state
        node.update(store, None)
        want = fold_step(name, state, value, star=dtype is types.Asterisk)
        if not same(store[node.handle], want):
            return 'update'
        if not same(store[neighbour.handle], other):
            return 'update-touches-other-slot'
        if len(log) > 1:
            return 'operand-evaluated-twice'
        node.finalize(store)
        if not same(node(None), want):
            return 'finalize'
        return 'ok'


for _spec in STEP_SPECS:
    make_step(*_spec)


# ---------------------------------------------------------------------------
# C02.query: SELECT k, agg(v) FROM #t [WHERE w] GROUP BY k [HAVING ...]

QCOLS = [('k', int), ('v', int), ('w', bool)]


def _qrows(nrows, kw):
    rows = []
    for i in range(nrows):
        k = KEYDOM.build(f'k{i}', kw)
        rows.append((k, kw[f'v{i}'], kw[f'w{i}']))
    return rows


def _qparams(nrows):
    params = {}
    for i in range(nrows):
        params[f'k{i}'] = int
        params[f'v{i}'] = Optional[int]
        params[f'w{i}'] = Optional[bool]
    return params


HAVINGS = {
    'none': lambda agg: None,
    'count': lambda agg: ast.Greater(func('count', col('v')), const(0)),
    'agg': lambda agg: ast.Greater(agg, const(0)),
}


def make_query(name, nrows, quick, thorough):
    star = name == 'count*'
    fname = 'count' if star else name

    for hname, hmake in HAVINGS.items():
        if hname == 'agg' and fname in ('first', 'last'):
            continue

        def make(hname=hname, hmake=hmake):
            @cond(f'C02.query.{name}.{nrows}rows.having-{hname}', quick=quick, thorough=thorough,
                  bounds=f'{nrows} rows (k in {{NULL,0,1}} enumerated because grouping hashes it, v unbounded symbolic int '
                         f'or NULL, w symbolic bool or NULL); SELECT k, {name}(v) FROM #t [WHERE w] GROUP BY k '
                         f'[HAVING {hname}]',
                  symbolic='v and w cells, WHERE presence', enumerated='k cells', params={**_qparams(nrows), 'where': bool},
                  group='C02.query')
            def query(where, **kw):
                rows = _qrows(nrows, kw)
                agg = func(fname, ast.Asterisk() if star else col('v'))
                stmt = sel([target(col('k')), target(agg, 'r')], 't',
                           where=col('w') if where else None,
                           group_by=ast.GroupBy([col('k')], hmake(agg)))
                cur, got, want = _run_both(stmt, rows, QCOLS)
                if not same_rows(got, want.rows):
                    return 'groups'
                if len(got) == 0:
                    cover('empty-selection')
                if len(got) >= 2:
                    cover('several-groups')
                return 'ok'
        make()


for _name in ('count*', 'count', 'sum', 'min', 'max', 'first', 'last'):
    make_query(_name, 2, 120, 300)
    make_query(_name, 3, None, 1200)


@cond('C02.query.arith', quick=180, thorough=600,
      bounds='2 rows (k in {NULL,0,1}, v symbolic int or NULL); SELECT k, sum(v) + count(*), sum(v) / count(v) GROUP BY k',
      symbolic='v cells (range +-3 because of int/int division)', enumerated='k cells',
      params={'k0': int, 'k1': int, 'v0': int, 'v1': int})
def query_arith(k0, k1, v0, v1):
    vd = sym.VEnumInt(-3, 3)
    rows = [(KEYDOM.build('k', {'k': k0}), vd.build('v', {'v': v0})),
            (KEYDOM.build('k', {'k': k1}), vd.build('v', {'v': v1}))]
    columns = [('k', int), ('v', int)]
    stmt = sel([target(col('k')),
                target(ast.Add(func('sum', col('v')), func('count', ast.Asterisk())), 'a'),
                target(ast.Div(func('sum', col('v')), func('count', col('v'))), 'b')], 't',
               group_by=ast.GroupBy([1], None))
    cur, got, want = _run_both(stmt, rows, columns)
    if not same_rows(got, want.rows):
        return 'arith-over-aggregates'
    return 'ok'


@cond('C02.query.repeated-aggregate', quick=180, thorough=600,
      bounds='2 rows (k in {NULL,0,1}, v symbolic int or NULL); the same aggregate written more than once: SELECT k, sum(v) + sum(v), '
             'max(v) - min(v) + max(v), count(*) + count(*), sum(v), coalesce(max(v), 0) + count(*), coalesce(sum(v), -1) GROUP BY k '
             '[HAVING count(v) + count(v) > 1]: every occurrence is the fold of its group, also inside coalesce()',
      symbolic='v cells, HAVING presence', enumerated='k cells',
      params={'k0': int, 'k1': int, 'v0': Optional[int], 'v1': Optional[int], 'having': bool})
def query_repeated_aggregate(k0, k1, v0, v1, having):
    rows = [(KEYDOM.build('k', {'k': k0}), v0), (KEYDOM.build('k', {'k': k1}), v1)]
    columns = [('k', int), ('v', int)]
    S, MX, MN, CS, CV = (lambda: func('sum', col('v'))), (lambda: func('max', col('v'))), (lambda: func('min', col('v'))), \
        (lambda: func('count', ast.Asterisk())), (lambda: func('count', col('v')))
    hv = ast.Greater(ast.Add(CV(), CV()), const(1)) if having else None
    stmt = sel([target(col('k')), target(ast.Add(S(), S()), 'a'), target(ast.Add(ast.Sub(MX(), MN()), MX()), 'b'),
                target(ast.Add(CS(), CS()), 'c'), target(S(), 'd'),
                # aggregates inside coalesce(), alone and next to another aggregate
                target(ast.Add(func('coalesce', MX(), const(0)), CS()), 'e'), target(func('coalesce', S(), const(-1)), 'f')],
               't', group_by=ast.GroupBy([1], hv))
    cur, got, want = _run_both(stmt, rows, columns)
    if not same_rows(got, want.rows):
        return 'repeated-aggregate'
    return 'ok'


@cond('C02.query.group-without-aggregates', quick=180, thorough=600,
      bounds='3 rows (k, j in {NULL,0,1} enumerated); GROUP BY without any aggregate: SELECT k GROUP BY k, j (hidden key j), '
             'SELECT k, j GROUP BY k, j, SELECT j GROUP BY 1, k: exactly one row per group, also when groups agree on the visible '
             'columns; SELECT k, count(*) GROUP BY k, j HAVING count(*) > 1 and SELECT count(*) GROUP BY j HAVING count(*) < 2 (HAVING '
             'with a hidden key)',
      symbolic='(none)', enumerated='cells, statement form', params={**{f'{c}{i}': int for c in 'kj' for i in range(3)}, 'form': int})
def query_group_without_aggregates(form, **kw):
    rows = [(KEYDOM.build(f'k{i}', kw), KEYDOM.build(f'j{i}', kw)) for i in range(3)]
    columns = [('k', int), ('j', int)]
    stmt = pick([
        lambda: sel([target(col('k'))], 't', group_by=ast.GroupBy([col('k'), col('j')], None)),
        lambda: sel([target(col('k')), target(col('j'))], 't', group_by=ast.GroupBy([col('k'), col('j')], None)),
        lambda: sel([target(col('j'))], 't', group_by=ast.GroupBy([1, col('k')], None)),
        # HAVING together with a hidden grouping key: the HAVING verdict, not the hidden key, keeps or drops the group
        lambda: sel([target(col('k')), target(func('count', ast.Asterisk()), 'n')], 't',
                    group_by=ast.GroupBy([col('k'), col('j')], ast.Greater(func('count', ast.Asterisk()), const(1)))),
        lambda: sel([target(func('count', ast.Asterisk()), 'n')], 't',
                    group_by=ast.GroupBy([col('j')], ast.Less(func('count', ast.Asterisk()), const(2)))),
    ], form)()
    cur, got, want = _run_both(stmt, rows, columns)
    if not same_rows(got, want.rows):
        return 'one-row-per-group'
    return 'ok'


@cond('C02.query.no-group', quick=120,
      bounds='<=3 rows of (v symbolic int or NULL, w symbolic bool or NULL); SELECT count(*), count(v), sum(v), min(v), '
             'max(v) [WHERE w] without GROUP BY: one row over the whole selection',
      symbolic='row count, all cells, WHERE presence')
def query_nogroup(rows: List[Tuple[Optional[int], Optional[bool]]], where: bool) -> str:
    assume(len(rows) <= 3)
    columns = [('v', int), ('w', bool)]
    stmt = sel([target(func('count', ast.Asterisk()), 'n'), target(func('count', col('v')), 'c'),
                target(func('sum', col('v')), 's'), target(func('min', col('v')), 'lo'),
                target(func('max', col('v')), 'hi')], 't', where=col('w') if where else None)
    cur, got, want = _run_both(stmt, list(rows), columns)
    if not same_rows(got, want.rows):
        return 'ungrouped-aggregates'
    return 'ok'


# ---------------------------------------------------------------------------
# C02.keys: every way of naming the grouping key

KEYFORMS = {
    'name': lambda: ([target(col('k')), target(func('sum', col('v')), 's')], [col('k')]),
    'alias': lambda: ([target(col('k'), 'kk'), target(func('sum', col('v')), 's')], [col('kk')]),
    'position': lambda: ([target(col('k')), target(func('sum', col('v')), 's')], [1]),
    'expression': lambda: ([target(ast.Neg(col('k')), 'nk'), target(func('sum', col('v')), 's')], [ast.Neg(col('k'))]),
    'implicit': lambda: ([target(col('k')), target(func('sum', col('v')), 's')], None),
    'hidden': lambda: ([target(func('sum', col('v')), 's')], [col('k')]),
    'position-2nd': lambda: ([target(func('sum', col('v')), 's'), target(col('k'))], [2]),
}


def make_keys(form):
    @cond(f'C02.keys.{form}', quick=120,
          bounds='2 rows (k in {NULL,0,1} enumerated, v symbolic int or NULL); grouping key given by ' + form,
          symbolic='v cells', enumerated='k cells; key form (one condition each)',
          params={'k0': int, 'k1': int, 'v0': Optional[int], 'v1': Optional[int]}, group='C02.keys')
    def keys(k0, k1, v0, v1):
        rows = [(KEYDOM.build('k', {'k': k0}), v0), (KEYDOM.build('k', {'k': k1}), v1)]
        columns = [('k', int), ('v', int)]
        targets, group = KEYFORMS[form]()
        stmt = sel(targets, 't', group_by=ast.GroupBy(group, None) if group is not None else None)
        cur, got, want = _run_both(stmt, rows, columns)
        if not same_rows(got, want.rows):
            return 'groups'
        if [c.name for c in cur.description] != want.names:
            return 'names'
        return 'ok'


for _form in KEYFORMS:
    make_keys(_form)


@cond('C02.keys.position-range', quick=60,
      bounds='SELECT k, sum(v) GROUP BY <position p>, p symbolic in -3..6: accepted iff p == 1 '
             '(p == 2 names an aggregate; others are out of range)',
      symbolic='the position')
def keys_position_range(p: int) -> str:
    assume(-3 <= p <= 6)
    p = enum_int(p, -3, 6)
    columns = [('k', int), ('v', int)]
    conn = connect(t=HTable('t', columns, [(1, 2)]))
    stmt = sel([target(col('k')), target(func('sum', col('v')), 's')], 't', group_by=ast.GroupBy([p], None))
    try:
        conn.execute(stmt)
        accepted = True
    except beanquery.CompilationError:
        accepted = False
    except Exception as exc:
        return 'raises-' + type(exc).__name__
    if accepted != (p == 1):
        return 'position-acceptance'
    return 'ok'


# ---------------------------------------------------------------------------
# C02.additive: group-wise counts and sums add up to the ungrouped totals (real code on both sides)

@cond('C02.additive', quick=180, thorough=900,
      bounds='3 rows (k in {NULL,0,1} enumerated, v symbolic int or NULL)',
      symbolic='v cells', enumerated='k cells',
      params={'k0': int, 'k1': int, 'k2': int, 'v0': Optional[int], 'v1': Optional[int], 'v2': Optional[int]})
def additive(k0, k1, k2, v0, v1, v2):
    rows = [(KEYDOM.build('k', {'k': k}), v) for k, v in ((k0, v0), (k1, v1), (k2, v2))]
    columns = [('k', int), ('v', int)]
    conn = connect(t=HTable('t', columns, rows))
    grouped = conn.execute(parse('SELECT k, count(*) AS n, count(v) AS c, sum(v) AS s FROM #t GROUP BY k')).fetchall()
    total = conn.execute(parse('SELECT count(*) AS n, count(v) AS c, sum(v) AS s FROM #t')).fetchall()
    if len(total) != 1:
        return 'total-shape'
    n = sum(r[1] for r in grouped)
    c = sum(r[2] for r in grouped)
    s = sum(r[3] for r in grouped)
    if (n, c, s) != tuple(total[0]):
        return 'not-additive'
    if n != 3:
        return 'count'
    return 'ok'


@cond('C02.empty', quick=60,
      bounds='<=2 rows all excluded by WHERE (w is NULL or FALSE): grouped query yields no row',
      symbolic='row count, cells')
def empty(rows: List[Tuple[Optional[int], Optional[int]]], null_w: bool) -> str:
    assume(len(rows) <= 2)
    columns = [('k', int), ('v', int), ('w', bool)]
    full = [(k, v, None if null_w else False) for k, v in rows]
    for k, _ in rows:
        assume(k is None or 0 <= k <= 1)
    conn = connect(t=HTable('t', columns, full))
    got = conn.execute(parse('SELECT k, sum(v) AS s FROM #t WHERE w GROUP BY k')).fetchall()
    if got != []:
        return 'row-for-empty-selection'
    return 'ok'


# ---------------------------------------------------------------------------
# C02.merge: a grouping key is merged with a target only when it is the same expression

def make_merge(tname, cls):
    import collections.abc
    names = [n for n, c in cls.columns.items() if issubclass(c.dtype, collections.abc.Hashable)]
    if len(names) < 2:
        return

    @cond(f'C02.merge.{tname}', quick=120,
          bounds=f'table {tname}: every ordered pair of distinct hashable columns (c1, c2): SELECT c1, count(*) GROUP BY c2 '
                 'must be rejected (c1 is not covered); SELECT c2, count(*) GROUP BY c2 groups by c2',
          symbolic='(none)', enumerated='column pair through two selectors', group='C02.merge',
          params={'i': int, 'j': int})
    def merge(i, j):
        c1 = pick(names, i)
        c2 = pick(names, j)
        assume(c1 != c2)
        table = cls.__new__(cls)
        conn = connect(**{tname: table})
        count = func('count', ast.Asterisk())
        bad = sel([target(col(c1)), target(count, 'n')], tname, group_by=ast.GroupBy([col(c2)], None))
        try:
            conn.compile(bad)
            return 'uncovered-target-accepted'
        except beanquery.CompilationError:
            pass
        good = sel([target(col(c2)), target(count, 'n')], tname, group_by=ast.GroupBy([col(c2)], None))
        query = conn.compile(good)
        if query.group_indexes != [0] or query.c_targets[0].c_expr is not cls.columns[c2]:
            return 'group-key'
        return 'ok'


for _name, _cls in ledger_tables():
    make_merge(_name, _cls)


@cond('C02.query.wide', quick=180,
      bounds='2 rows (k in {0,1}, w bool, v symbolic int or NULL); a wide aggregate query with 10 targets whose grouping '
             'columns sit at target positions 2 and 9 (k int, w bool) among 8 aggregates; also the announced datatypes',
      symbolic='v cells, w cells', enumerated='k cells',
      params={'k0': int, 'k1': int, 'w0': bool, 'w1': bool, 'v0': Optional[int], 'v1': Optional[int]})
def query_wide(k0, k1, w0, w1, v0, v1):
    kd = sym.VEnumInt(0, 1, nullable=False)
    rows = [(kd.build('k', {'k': k0}), True if w0 else False, v0), (kd.build('k', {'k': k1}), True if w1 else False, v1)]
    columns = [('k', int), ('w', bool), ('v', int)]
    aggs = ['count', 'sum', 'min', 'max', 'first', 'last']
    targets = [target(func('count', ast.Asterisk()), 'n'), target(col('k'))]
    targets += [target(func(a, col('v')), a + '_v') for a in aggs]
    targets += [target(col('w')), target(func('count', col('k')), 'ck')]
    stmt = sel(targets, 't', group_by=ast.GroupBy([col('k'), col('w')], None))
    cur, got, want = _run_both(stmt, rows, columns)
    if not same_rows(got, want.rows):
        return 'wide-group-keys'
    for row in got:
        if not isinstance(row[1], int) or isinstance(row[1], bool) or not isinstance(row[8], bool):
            return 'group-key-in-wrong-column'
    if cur.description[1].datatype is not int or cur.description[8].datatype is not bool:
        return 'announced-datatypes'
    return 'ok'


@cond('C02.keys.duplicate', quick=180,
      bounds='2 rows (k in {NULL,0,1}, w bool, v symbolic int or NULL); the same grouping key named twice (by position and by name, '
             'by name twice, by name and by an equal expression) plus a further key: SELECT k, w, sum(v) GROUP BY <forms>',
      symbolic='v, w cells', enumerated='k cells, the spelling of the GROUP BY list',
      params={'k0': int, 'k1': int, 'w0': bool, 'w1': bool, 'v0': Optional[int], 'v1': Optional[int], 'form': int})
def keys_duplicate(k0, k1, w0, w1, v0, v1, form):
    rows = [(KEYDOM.build('k', {'k': k0}), True if w0 else False, v0), (KEYDOM.build('k', {'k': k1}), True if w1 else False, v1)]
    columns = [('k', int), ('w', bool), ('v', int)]
    groups = [[1, col('k'), col('w')], [col('k'), col('k'), col('w')], [col('w'), 1, col('k'), 2], [1, 2, 1], [col('k'), 2, col('k')]]
    stmt = sel([target(col('k')), target(col('w')), target(func('sum', col('v')), 's')], 't',
               group_by=ast.GroupBy(pick(groups, form), None))
    cur, got, want = _run_both(stmt, rows, columns)
    if not same_rows(got, want.rows):
        return 'duplicate-grouping-key'
    return 'ok'


# ---------------------------------------------------------------------------
# C02.query.objects: the folds over amount / position / inventory operands are pure

import functools


@functools.lru_cache(maxsize=None)
def _object_palettes():
    import datetime
    from beancount.core import amount, inventory, position
    A = amount.Amount
    lot = position.Cost(D('100.00'), 'USD', datetime.date(2019, 1, 5), None)

    def inv(*positions):
        out = inventory.Inventory()
        for units, cost in positions:
            out.add_amount(units, cost)
        return out
    return {
        'inventory': (inventory.Inventory, [None, inv(), inv((A(D('10.00'), 'USD'), None)),
                                            inv((A(D('2'), 'HOOL'), lot), (A(D('5.00'), 'EUR'), None)),
                                            inv((A(D('-10.00'), 'USD'), None))]),
        'position': (position.Position, [None, position.Position(A(D('10.00'), 'USD'), None),
                                         position.Position(A(D('2'), 'HOOL'), lot), position.Position(A(D('-1'), 'HOOL'), lot)]),
        'amount': (amount.Amount, [None, A(D('1.50'), 'USD'), A(D('0.00'), 'USD'), A(D('2.00'), 'EUR')]),
    }


def _objects_run(kind, picks, keys):
    import copy
    from beancount.core import inventory
    dtype, palette = _object_palettes()[kind]
    values = [copy.deepcopy(palette[i]) for i in picks]
    before = copy.deepcopy(values)
    rows = [(k, v) for k, v in zip(keys, values)]
    columns = [('k', int), ('v', dtype)]
    conn = connect(t=HTable('t', columns, rows))
    text = ('SELECT k, sum(v) AS s1, first(v) AS f, last(v) AS l, sum(v) AS s2, count(v) AS c, count(*) AS n '
            'FROM #t GROUP BY k')
    results = []
    for _ in range(2):                                    # executed twice over the same table object
        cur = conn.execute(parse(text))
        results.append(cur.fetchall())
    want = []
    for key in dict.fromkeys(keys):
        group = [v for k, v in zip(keys, before) if k == key]
        total = inventory.Inventory()
        for v in group:
            if v is None:
                continue
            if kind == 'inventory':
                total.add_inventory(v)
            elif kind == 'position':
                total.add_position(v)
            else:
                total.add_amount(v)
        nonnull = [v for v in group if v is not None]
        want.append((key, total, nonnull[0] if nonnull else None, group[-1], total, len(nonnull), len(group)))
    if results[0] != want:
        return 'fold-over-' + kind
    if results[1] != want:
        return 'second-execution-differs'
    if values != before:
        return 'source-values-mutated'
    return 'ok'


@cond('C02.query.objects', quick=240, thorough=600,
      bounds='3 rows (k: first 0, others in {0,1}; v of type amount / position / inventory picked from a palette of 4-5 values incl. '
             'NULL, an empty inventory, lots at cost, a zero amount); SELECT k, sum(v), first(v), last(v), sum(v), count(v), '
             'count(*) GROUP BY k executed twice over the same table object: each aggregate is the fold of its group, two '
             'aggregates over the same column do not share state, the source values are left untouched',
      symbolic='(none)', enumerated='operand type, the three values, the keys',
      params={'kind': int, 'p0': int, 'p1': int, 'p2': int, 'k1': bool, 'k2': bool},
      note='solver-enumerated and executed natively: Beancount inventories are C-level Decimal containers (R3)')
def query_objects(kind, p0, p1, p2, k1, k2):
    kind = pick(['inventory', 'position', 'amount'], kind)
    n = 5 if kind == 'inventory' else 4
    picks = [enum_int(p0, 0, n - 1), enum_int(p1, 0, n - 1), enum_int(p2, 0, n - 1)]
    keys = [0, 1 if k1 else 0, 1 if k2 else 0]
    return native(_objects_run, kind, picks, keys)


@cond('C02.keys.equal-hashes', quick=120,
      bounds='4 rows with grouping keys from {-1, -2, 0, NULL} (hash(-1) == hash(-2) in CPython) as int and as decimal, v symbolic int: '
             'SELECT k, count(*), sum(v) GROUP BY k and SELECT DISTINCT k: rows are partitioned by the value of the key',
      symbolic='v cells', enumerated='keys, int / decimal',
      params={**{f'k{i}': int for i in range(4)}, **{f'v{i}': int for i in range(4)}, 'dec': bool})
def keys_equal_hashes(dec, **kw):
    palette = [-1, -2, 0, None]
    keys = [pick(palette, kw[f'k{i}']) for i in range(4)]
    if dec:
        keys = [None if k is None else D(k) for k in keys]
    rows = [(k, kw[f'v{i}']) for i, k in enumerate(keys)]
    columns = [('k', D if dec else int), ('v', int)]
    stmt = sel([target(col('k')), target(func('count', ast.Asterisk()), 'n'), target(func('sum', col('v')), 's')], 't',
               group_by=ast.GroupBy([1], None))
    cur, got, want = _run_both(stmt, rows, columns)
    if not same_rows(got, want.rows):
        return 'groups-merged-or-split'
    cur, got, want = _run_both(sel([target(col('k'))], 't', distinct=True), rows, columns)
    if not same_rows(got, want.rows):
        return 'distinct-keys'
    return 'ok'
