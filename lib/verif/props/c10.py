"""C10 - Cursor fetch protocol and description conform to the DB-API."""

from typing import List, Tuple

import beanquery
from beanquery.cursor import Column, Cursor

from ..h import cond, assume, cover, known, pick, enum_int, native
from ..tables import HTable, connect, parse

SENTINEL = object()


def _apply(cur, op, n, model_rows, fetched, arraysize=None):
    """Apply one fetch operation; returns (label or None, new fetched)."""
    remaining = model_rows[fetched:]
    if op == 0:
        got = cur.fetchone()
        want = remaining[0] if remaining else None
        k = 1 if remaining else 0
        if got != want or (want is None and got is not None):
            return 'fetchone-value', fetched
    elif op == 1:
        got = cur.fetchmany(n)
        want = remaining[:n]
        k = len(want)
        if not isinstance(got, list) or got != want:
            return 'fetchmany-value', fetched
    elif op == 2:
        got = cur.fetchmany()
        # (the default size is the arraysize the user set, which no fetch may change)
        want = remaining[:cur.arraysize if arraysize is None else arraysize]
        k = len(want)
        if not isinstance(got, list) or got != want:
            return 'fetchmany-default-value', fetched
    elif op == 3:
        got = cur.fetchall()
        want = remaining
        k = len(want)
        if not isinstance(got, list) or got != want:
            return 'fetchall-value', fetched
    else:
        # iteration: take up to n rows from iter(cursor)
        it = iter(cur)
        got = []
        for _ in range(n):
            row = next(it, SENTINEL)
            if row is SENTINEL:
                break
            got.append(row)
        want = remaining[:n]
        k = len(want)
        if got != want:
            return 'iteration-value', fetched
    return None, fetched + k


def _attrs(cur, model_rows, fetched):
    if cur.rownumber != fetched:
        return 'rownumber'
    if cur.rowcount != len(model_rows):
        return 'rowcount'
    return None


@cond('C10.step', quick=120,
      bounds='pre-state: <=4 result rows, any number 0..len already fetched; one operation of '
             'fetchone/fetchmany(n)/fetchmany()/fetchall/iteration(n); 0<=n<=6, 1<=arraysize<=6',
      symbolic='row values (ints), row count, fetched count, op, n, arraysize',
      must_cover=('repr-as-expected',),
      note='inductive step over the cursor state (attributes _rows/_pos/_rowcount hold the state); '
           'covers histories of any length provided the invariant captures the state')
def step(all_rows: List[int], fetched: int, op: int, n: int, arraysize: int) -> str:
    assume(len(all_rows) <= 4 and 0 <= fetched <= len(all_rows))
    assume(0 <= op <= 4 and 0 <= n <= 6 and 1 <= arraysize <= 6)
    rows = [(v,) for v in all_rows]
    cur = Cursor(connect())
    # Representation invariant of the implementation: the state after delivering
    # ``fetched`` of ``rows``.
    probe = Cursor(connect())
    if set(vars(probe)) == {'_context', '_description', '_rows', '_pos', 'arraysize', '_rowcount'}:
        cover('repr-as-expected')
        cur._rowcount = len(rows)
    elif set(vars(probe)) == {'_context', '_description', '_rows', '_pos', 'arraysize'}:
        cover('repr-as-expected')
    cur._description = (Column('x', int),)
    cur._rows = rows[fetched:]
    cur._pos = fetched
    cur.arraysize = arraysize
    label, fetched2 = _apply(cur, op, n, rows, fetched)
    if label:
        return label
    label = _attrs(cur, rows, fetched2)
    if label:
        return label
    # invariant re-established: the remaining rows are exactly the undelivered ones
    rest = cur.fetchall()
    if rest != rows[fetched2:]:
        return 'invariant'
    if cur.fetchone() is not None or cur.fetchmany(3) != [] or cur.fetchall() != []:
        return 'exhausted-returns'
    return 'ok'


OPNAMES = ['fetchone', 'fetchmany_n', 'fetchmany', 'fetchall', 'iterate_n', 'reexecute', 'othercursor', 'next_kept']


def _hist_body(opcodes, nrows, sizes, arraysize, via_conn=False):
    assume(0 <= nrows <= 3 and 1 <= arraysize <= 3)
    for n in sizes:
        assume(0 <= n <= 4)
    table = HTable('t', [('x', int)], [(i,) for i in range(nrows)])
    conn = connect(t=table)
    stmt = 'SELECT x FROM #t'
    if via_conn:
        # the cursors are the ones Connection.execute() hands out
        cur = conn.execute(parse(stmt))
        cur.arraysize = arraysize
        other = None
    else:
        cur = conn.cursor()
        other = conn.cursor()
        if cur.description is not None or cur.rowcount != -1:
            return 'fresh-attrs'
        cur.arraysize = arraysize
        cur.execute(parse(stmt))
    rows = [(i,) for i in range(nrows)]
    fetched = 0
    label = _attrs(cur, rows, fetched)
    if label:
        return label + '-after-execute'
    kept = iter(cur)        # one iterator kept alive for the whole history (op 7 resumes it)
    for op, n in zip(opcodes, sizes):
        if op == 7:
            row = next(kept, SENTINEL)
            want = rows[fetched] if fetched < len(rows) else SENTINEL
            if row != want:
                return 'kept-iterator-value'
            if want is not SENTINEL:
                fetched += 1
        elif op == 5:
            cur.execute(parse(stmt))
            fetched = 0
        elif op == 6:
            if via_conn:
                other = conn.execute(parse('SELECT x + 1 FROM #t'))
                if other is cur:
                    return 'connection-execute-returned-a-cursor-in-use'
            else:
                other.execute(parse('SELECT x + 1 FROM #t'))
            other.fetchone()
        else:
            label, fetched = _apply(cur, op, n, rows, fetched, arraysize)
            if label:
                return label
        label = _attrs(cur, rows, fetched)
        if label:
            return label
        if cur.arraysize != arraysize:
            return 'arraysize-changed-by-an-operation'
        if len(cur.description) != 1 or cur.description[0].name != 'x':
            return 'description'
    return 'ok'


def _make_hist(opcodes, quick, thorough):
    name = '+'.join(OPNAMES[o] for o in opcodes)

    @cond(f'C10.hist.{name}', quick=quick, thorough=thorough,
          bounds='result of 0..3 rows; this fixed operation sequence after execute; sizes 0..4, arraysize 1..3; cursors made '
                 'with Connection.cursor() or handed out by Connection.execute()',
          symbolic='row count, sizes of each operation, arraysize, how the cursors are obtained',
          enumerated='operation sequence (one condition per sequence: all of length 1 and 2 quick, 3 thorough)',
          params={'nrows': int, **{f'n{i}': int for i in range(len(opcodes))}, 'arraysize': int, 'via_conn': bool})
    def hist(nrows, arraysize, via_conn, **sizes):
        return _hist_body(opcodes, nrows, [sizes[f'n{i}'] for i in range(len(opcodes))], arraysize, bool(via_conn))


for _a in range(8):
    _make_hist((_a,), 60, 120)
    for _b in range(8):
        _make_hist((_a, _b), 120, 240)
        if 7 in (_a, _b):
            # the kept iterator resumed after another operation: one more step shows what it delivers next
            _make_hist((_a, _b, 7), 120, 240)
        for _c in range(7):
            # length 3: a consuming op is needed for re-execute / other cursor to matter
            if _c in (5, 6) and _b in (5, 6):
                continue
            _make_hist((_a, _b, _c), None, 300)


@cond('C10.fresh', quick=30, bounds='a cursor before any execute; fetchmany size 0..5',
      symbolic='fetchmany size, arraysize')
def fresh(n: int, arraysize: int) -> str:
    assume(0 <= n <= 5 and 1 <= arraysize <= 5)
    conn = connect()
    first = conn.cursor()
    cur = conn.cursor()
    cur.arraysize = arraysize
    if cur.description is not None:
        return 'description'
    if cur.rowcount != -1:
        return 'rowcount'
    if cur.fetchone() is not None:
        return 'fetchone'
    if cur.fetchmany(n) != [] or cur.fetchmany() != []:
        return 'fetchmany'
    if cur.fetchall() != []:
        return 'fetchall'
    if next(iter(cur), SENTINEL) is not SENTINEL:
        return 'iter'
    if cur.rownumber != 0:
        return 'rownumber'
    if cur.connection is not conn or first.connection is not conn:
        return 'connection'
    return 'ok'


_TYPES = [int, str, bool, object]


@cond('C10.column.index', quick=60,
      bounds='Column(name, datatype): index -9..8; 3 names; 4 datatypes',
      symbolic='index, name and datatype selectors')
def column_index(k: int, t: int, i: int) -> str:
    name = pick(('x', '', 'sum(a) + 1'), k)
    dtype = pick(_TYPES, t)
    i = enum_int(i, -9, 8)
    col = Column(name, dtype)
    ref = (name, hash(dtype), None, None, None, None, None)
    if len(col) != 7:
        return 'len'
    if tuple(col) != ref or list(iter(col)) != list(ref):
        return 'iter'
    if -7 <= i <= 6:
        if col[i] != ref[i]:
            return 'index'
        cover('index-in-range')
    else:
        try:
            col[i]
            return 'index-out-of-range-accepted'
        except IndexError:
            cover('index-out-of-range')
    if col.name != name or col.type_code != hash(dtype) or col.datatype is not dtype:
        return 'attrs'
    if name in col and col.count(None) == 5 and col.index(name) == 0:
        cover('sequence-mixins')
    else:
        return 'sequence-mixins'
    return 'ok'


def _make_slice(step):
    @cond(f'C10.column.slice.step_{step}', quick=120,
          bounds=f'Column[a:b:{step}] with a, b in -8..8 or absent',
          symbolic='slice start/stop and their presence', enumerated='step (one condition per step)')
    def column_slice(a: int, b: int, ha: bool, hb: bool) -> str:
        a = enum_int(a, -8, 8)
        b = enum_int(b, -8, 8)
        col = Column('nm', int)
        ref = ('nm', hash(int), None, None, None, None, None)
        sl = slice(a if ha else None, b if hb else None, step)
        try:
            got = col[sl]
        except Exception as exc:
            return 'slice-raises-' + type(exc).__name__
        if tuple(got) != ref[sl]:
            return 'slice'
        return 'ok'


for _s in (None, 1, 2, 3, -1, -2, -3):
    _make_slice(_s)


@cond('C10.column.eq', quick=60, bounds='two Columns, names <=2 chars, 4 datatypes',
      symbolic='both names and datatype selectors')
def column_eq(name: str, t: int, name2: str, t2: int) -> str:
    assume(len(name) <= 2 and len(name2) <= 2 and 0 <= t < 4 and 0 <= t2 < 4)
    col = Column(name, pick(_TYPES, t))
    col2 = Column(name2, pick(_TYPES, t2))
    same = (name == name2 and t == t2)
    if (col == col2) != same or (col != col2) == same:
        return 'eq'
    cover('equal' if same else 'unequal')
    return 'ok'


@cond('C10.module', quick=20, bounds='module-level DB-API attributes', symbolic='(none: constants)',
      params={'x': bool})
def module(x):
    if beanquery.apilevel != '2.0' or beanquery.paramstyle != 'pyformat':
        return 'attrs'
    if beanquery.threadsafety not in (0, 1, 2, 3):
        return 'threadsafety'
    if beanquery.connect(None).cursor().connection is None:
        return 'connect'
    return 'ok'
