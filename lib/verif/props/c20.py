"""C20 - Thread isolation: concurrent queries give the same results as serial execution.

Real threads run the real Cursor.execute; the interleaving is forced by scheduler-controlled BQL
functions registered through the public FUNCTIONS extension point (the mechanism named in the
property): ``ysync(x)`` is evaluated per row (a switch point between sub-expression evaluations)
and ``csync(k)`` is constant-folded, i.e. evaluated during compilation (a switch point inside the
compiler).  Exactly one thread runs at a time; the schedule - which thread proceeds at each switch
point - is the harness argument the solver enumerates.
"""

import datetime
import decimal
import threading

import beanquery
from beancount.core import amount, data
from beanquery import query_env, types

from .. import ledger
from ..h import cond, assume, cover, pick, enum_int, native

D = decimal.Decimal
A = amount.Amount
_LOCAL = threading.local()


class Scheduler:
    """Baton passing: one thread runs at a time, up to its next switch point."""

    def __init__(self, schedule, nthreads, round_robin=False):
        self.schedule = list(schedule)
        self.round_robin = round_robin
        self.last = -1
        self.cv = threading.Condition()
        self.turn = None
        self.parked = set()
        self.finished = set()
        self.nthreads = nthreads
        self.deadlock = False

    # -- called by worker threads
    def park(self, tid):
        with self.cv:
            self.parked.add(tid)
            self.turn = None
            self.cv.notify_all()
            while self.turn != tid:
                if not self.cv.wait(timeout=20):
                    self.deadlock = True
                    raise RuntimeError('scheduler deadlock')
            self.parked.discard(tid)

    def finish(self, tid):
        with self.cv:
            self.finished.add(tid)
            self.turn = None
            self.cv.notify_all()

    # -- called by the driver
    def drive(self):
        with self.cv:
            while len(self.finished) < self.nthreads:
                while self.turn is not None or len(self.parked) + len(self.finished) < self.nthreads:
                    if not self.cv.wait(timeout=20):
                        self.deadlock = True
                        return
                alive = sorted(self.parked)
                if not alive:
                    continue
                if self.schedule:
                    choice = self.schedule.pop(0)
                    tid = alive[choice % len(alive)]
                elif self.round_robin:          # schedule used up: strict alternation at every switch point
                    later = [t for t in alive if t > self.last]
                    tid = later[0] if later else alive[0]
                else:
                    tid = alive[0]              # schedule used up: run the threads to completion in order
                self.last = tid
                self.turn = tid
                self.cv.notify_all()


def _checkpoint():
    sched = getattr(_LOCAL, 'sched', None)
    if sched is not None:
        sched.park(_LOCAL.tid)


@query_env.function([types.Any], object, pass_row=True, name='ysync')
def _ysync(row, x):
    _checkpoint()
    return x


@query_env.function([bool], bool, pass_row=True, name='ysync')
def _ysync_bool(row, x):
    _checkpoint()
    return x


@query_env.function([int], int, name='csync')
def _csync(k):
    # pure: folded by the compiler, i.e. called during compilation
    _checkpoint()
    return k


def small_ledger(variant=0):
    opens = ledger.opens()
    t1 = ledger.txn(datetime.date(2019, 1, 2), [ledger.posting('Assets:Cash' if variant else 'Assets:Bank', D('1000.00'), 'USD'),
                                                ledger.posting('Income:Salary', D('-1000.00'), 'USD')], narration='salary', lineno=20)
    t2 = ledger.txn(datetime.date(2019, 1, 10), [ledger.posting('Expenses:Books' if variant else 'Expenses:Food',
                                                                D('12.50') + variant, 'USD'),
                                                 ledger.posting('Assets:Cash' if variant else 'Assets:Bank',
                                                                D('-12.50') - variant, 'USD')],
                    narration='lunch', flag='!', lineno=21)
    t3 = ledger.txn(datetime.date(2019, 2, 1), [ledger.posting('Expenses:Food', D('8.00'), 'USD'),
                                                ledger.posting('Assets:Cash' if variant else 'Liabilities:Card', D('-8.00'), 'USD')],
                    narration='dinner', lineno=22)
    return opens + [t1, t2, t3]


STATEMENTS = [
    ('SELECT ysync(account) AS a, balance, ysync(number) AS n, balance AS b2', None),
    ('SELECT account, ysync(count(*)) AS n, sum(number) AS s, max(number) AS m GROUP BY account ORDER BY account', None),
    ('SELECT csync(1) AS k, date, %s AS p, account WHERE number > %s AND ysync(TRUE)', (7, D('0'))),
    ('SELECT csync(1) AS k, date, %s AS p, account WHERE number > %s AND ysync(TRUE)', (9, D('-100'))),
    ("SELECT date, ysync(account) AS a FROM year = 2019 CLOSE ON 2019-01-15 WHERE account IN (SELECT account FROM #postings "
     "WHERE ysync(number > 100))", None),
    ('SELECT csync(2) AS k, ysync(account) AS a FROM #accounts', None),
    ('SELECT ysync(account) AS a, ysync(sum(number)) AS s, first(narration) AS f, last(date) AS l GROUP BY a', None),
    ('SELECT DISTINCT ysync(flag) AS f, csync(3) AS k ORDER BY f', None),
    ('SELECT ysync(account) AS a, other_accounts, ysync(number) AS n, other_accounts AS o2, tags, ysync(payee) AS p', None),
    ('SELECT ysync(date) AS d, ysync(narration) AS n, flag FROM #transactions', None),
    ('SELECT count(*) AS n, last(narration) AS l FROM #transactions', None),
]


_SERIAL = {}


def _serial(entries, stmt, key=None):
    if key is not None and key in _SERIAL:
        return _SERIAL[key]
    conn = ledger.connect(list(entries), ledger.default_options())
    text, params = stmt
    cur = conn.execute(text, params)
    result = [(c.name, c.datatype) for c in cur.description], cur.fetchall()
    if key is not None:
        _SERIAL[key] = result
    return result


def _concurrent(stmts, schedule, shared, ledgers, round_robin=False):
    nthreads = len(stmts)
    sched = Scheduler(schedule, nthreads, round_robin)
    if shared:
        conn = ledger.connect(list(ledgers[0]), ledger.default_options())
        conns = [conn] * nthreads
    else:
        conns = [ledger.connect(list(ledgers[i % len(ledgers)]), ledger.default_options()) for i in range(nthreads)]
    results = [None] * nthreads

    def work(tid):
        _LOCAL.sched, _LOCAL.tid = sched, tid
        try:
            sched.park(tid)
            text, params = stmts[tid]
            cur = conns[tid].cursor()
            cur.execute(text, params)
            results[tid] = ([(c.name, c.datatype) for c in cur.description], cur.fetchall())
        except Exception as exc:        # noqa
            results[tid] = ('raises', repr(exc))
        finally:
            _LOCAL.sched = None
            sched.finish(tid)
    threads = [threading.Thread(target=work, args=(i,), daemon=True) for i in range(nthreads)]
    for t in threads:
        t.start()
    sched.drive()
    for t in threads:
        t.join(timeout=20)
    if sched.deadlock or any(t.is_alive() for t in threads):
        return 'deadlock'
    return results


def _check(pair, schedule, shared, two_ledgers, round_robin=False):
    stmts = [STATEMENTS[k] for k in pair]
    ledgers = [small_ledger(0), small_ledger(1)] if two_ledgers else [small_ledger(0)]
    got = _concurrent(stmts, schedule, shared, ledgers, round_robin)
    if got == 'deadlock':
        return 'harness-deadlock'
    for tid, stmt in enumerate(stmts):
        variant = 0 if shared else tid % len(ledgers)
        want = _serial(ledgers[variant], stmt, key=(variant, pair[tid]))
        if got[tid] != want:
            return f'thread-{tid}-result-differs-from-serial'
    return 'ok'


def make_pair(i, j, shared, quick, thorough, nbits):
    mode = 'shared' if shared else 'separate'

    @cond(f'C20.pair.{i}-{j}.{mode}', quick=quick, thorough=thorough,
          bounds=f'two threads on {"one shared connection" if shared else "two connections (same or different ledgers)"}: '
                 f'"{STATEMENTS[i][0][:70]}..." and "{STATEMENTS[j][0][:70]}..."; every schedule of the first {nbits} switch '
                 'points (a switch point before each row / sub-expression marked with ysync and inside compilation at csync), the '
                 'rest either run to completion in thread order or alternate strictly at every remaining switch point; each '
                 'result equals its serial result',
          symbolic='the schedule (which thread proceeds at each switch point)' + ('' if shared else ', same / different ledger'),
          enumerated='statement pair and connection sharing (one condition each)',
          params={**{f's{k}': bool for k in range(nbits)}, 'tail': bool, **({} if shared else {'two': bool})}, group='C20.pair',
          note='one thread runs at a time (baton passing), so every schedule is a real interleaving at the granularity of the '
               'switch points; finer-grained interleavings (between bytecodes) are outside the bound')
    def pair(tail, two=False, **kw):
        schedule = [1 if kw[f's{k}'] else 0 for k in range(nbits)]
        return native(_check, (i, j), schedule, shared, bool(two) and not shared, bool(tail))


_QUICK_PAIRS = [(0, 0), (0, 1), (1, 1), (2, 3), (3, 5), (4, 0), (6, 6), (1, 6), (7, 2), (5, 5), (4, 4), (8, 8), (8, 0), (9, 10), (9, 9)]
for _i in range(len(STATEMENTS)):
    for _j in range(len(STATEMENTS)):
        if (_i, _j) in _QUICK_PAIRS:
            make_pair(_i, _j, True, 300, 900, 7)
            make_pair(_i, _j, False, 180, 600, 5)
        elif _i <= _j:
            make_pair(_i, _j, True, None, 900, 7)


@cond('C20.triple', quick=None, thorough=1500,
      bounds='three threads on one shared connection (statements 1, 2, 6), every schedule of the first 7 switch points (choice '
             'among the parked threads)', symbolic='the schedule', params={f's{k}': int for k in range(7)})
def triple(**kw):
    schedule = [enum_int(kw[f's{k}'], 0, 2) for k in range(7)]
    return native(_check, (1, 2, 6), schedule, True, False)


@cond('C20.serial-tie', quick=60,
      bounds='each statement executed alone through the scheduler (one thread): equals plain serial execution - ties the harness '
             'to the real executor', symbolic='(none)', enumerated='statement', params={'k': int})
def serial_tie(k):
    k = enum_int(k, 0, len(STATEMENTS) - 1)

    def run():
        got = _concurrent([STATEMENTS[k]], [], True, [small_ledger(0)])
        return 'ok' if got != 'deadlock' and got[0] == _serial(small_ledger(0), STATEMENTS[k]) else 'single-thread-differs'
    return native(run)


@cond('C20.declaration', quick=20, bounds='module attributes', symbolic='(none)', params={'x': bool})
def declaration(x):
    if beanquery.threadsafety != 2:
        return 'threadsafety-level'
    if beanquery.apilevel != '2.0' or beanquery.paramstyle != 'pyformat':
        return 'dbapi-attributes'
    return 'ok'


# ---------------------------------------------------------------------------
# C20.preempt: one preemption at line granularity

import copy as _copy
import os as _os
import sys as _sys

_REPO_DIR = _os.path.dirname(_os.path.dirname(_os.path.abspath(beanquery.__file__))) + _os.sep
_PARSER_PY = _os.path.join('beanquery', 'parser', 'parser.py')

PREEMPT_STATEMENTS = {
    'maxwidth40': ('SELECT date, maxwidth(narration, 40) AS n', None),
    'maxwidth16': ('SELECT account, maxwidth(narration, 16) AS n WHERE number > 0', None),
    'baddate': ('SELECT date, narration WHERE date = 2024-02-30', None),
    'trivial': ('SELECT 1 + 1 AS two LIMIT 1', None),
    'balance': ('SELECT account, balance, number, balance AS b2', None),
    'aggregate': ('SELECT account, count(*) AS n, sum(number) AS s, last(narration) AS l GROUP BY account ORDER BY account', None),
    'params': ('SELECT %s AS p, account, other_accounts WHERE number > %s', (7, D('0'))),
    'params2': ('SELECT %s AS p, account, other_accounts WHERE number > %s', (9, D('-100'))),
    'period': ("SELECT date, account FROM year = 2019 CLOSE ON 2019-01-15 WHERE account IN (SELECT account FROM #postings WHERE number > 100)", None),
    'journal': ('JOURNAL "Assets" AT units', None),
    'balances': ('BALANCES AT cost FROM year = 2019', None),
    'transactions': ('SELECT count(*) AS n, last(narration) AS l FROM #transactions', None),
    'transactions2': ('SELECT date, narration, flag FROM #transactions', None),
    'distinct': ('SELECT DISTINCT flag, maxwidth(narration, 12) AS m ORDER BY flag', None),
    'balancesA': ("BALANCES AT cost WHERE account ~ 'Assets'", None),
    'balancesB': ("BALANCES AT cost WHERE account ~ 'Expenses'", None),
    'opendates': ('SELECT account, open_date(account) AS d, account_sortkey(account) AS k, possign(number, account) AS s', None),
    'opendates2': ('SELECT DISTINCT account, open_date(account) AS d, close_date(account) AS c ORDER BY account', None),
    'order2': ('SELECT account, number, narration ORDER BY account, number', None),
    'order2b': ('SELECT account, number, date ORDER BY account, number', None),
    'convert': ("SELECT account, convert(position, 'EUR') AS c, getprice('EUR', 'USD') AS p", None),
    'convert2': ("SELECT account, value(position) AS v, convert(position, 'EUR', 2019-02-01) AS c WHERE number > 0", None),
}


def preempt_ledger(variant=0):
    # every narration is longer than the widths used by the maxwidth statements: a preemption at the first occurrence of a line
    # (the first row) already shows a difference
    long = ' - a narration that is long enough to be cut at both of the widths used below'
    # (the second connection of the separate-connection runs has a ledger whose accounts were opened on another date)
    opens = ledger.opens(date=datetime.date(2001, 2, 3)) if variant else ledger.opens()
    t1 = ledger.txn(datetime.date(2019, 1, 2), [ledger.posting('Assets:Bank', D('1000.00'), 'USD'),
                                                ledger.posting('Income:Salary', D('-1000.00'), 'USD')], narration='salary' + long, lineno=20)
    t2 = ledger.txn(datetime.date(2019, 1, 10), [ledger.posting('Expenses:Food', D('12.50'), 'USD'),
                                                 ledger.posting('Assets:Bank', D('-12.50'), 'USD')],
                    narration='lunch' + long, flag='!', lineno=21)
    t3 = ledger.txn(datetime.date(2019, 2, 1), [ledger.posting('Expenses:Food', D('8.00'), 'USD'),
                                                ledger.posting('Liabilities:Card', D('-8.00'), 'USD')], narration='dinner' + long, lineno=22)
    prices = [data.Price(ledger.meta(90), datetime.date(2019, 1, 1), 'EUR', A(D('1.25'), 'USD')),
              data.Price(ledger.meta(91), datetime.date(2019, 1, 20), 'EUR', A(D('1.20'), 'USD'))]
    return opens + prices + [t1, t2, t3]


def _outcome(conn, stmt):
    text, params = stmt
    if not isinstance(text, str):
        text = _copy.deepcopy(text)          # a parsed statement: a fresh copy of the tree for every execution
    try:
        cur = conn.cursor()
        cur.execute(text, params)
        return 'rows', [(c.name, c.datatype) for c in cur.description], cur.fetchall()
    except beanquery.ParseError as exc:
        info = exc.parseinfo
        return 'ParseError', str(exc), (info.pos, info.endpos, info.line, info.tokenizer.text)
    except Exception as exc:        # noqa
        return type(exc).__name__, str(exc)


def _trace_points(stmt, with_parser, occurrences=2):
    """Line events of the statement's execution inside the tree under test: indexes of the first (and second) occurrence
    of every distinct code location."""
    events = []

    def tracer(frame, event, arg):
        filename = frame.f_code.co_filename
        if not filename.startswith(_REPO_DIR) or (not with_parser and filename.endswith(_PARSER_PY)):
            return None
        if event == 'line':
            events.append((filename, frame.f_lineno))
        return tracer

    # (the connection is made outside the traced region, exactly as in _preempted: the event indexes must line up)
    conn = ledger.connect(preempt_ledger(), ledger.default_options())

    def run():
        _sys.settrace(tracer)
        try:
            _outcome(conn, stmt)
        finally:
            _sys.settrace(None)
    t = threading.Thread(target=run)
    t.start()
    t.join()
    seen, points = {}, []
    for k, loc in enumerate(events):
        seen[loc] = seen.get(loc, 0) + 1
        if seen[loc] <= occurrences:
            points.append(k)
    return points, len(events)


def _preempted(stmt_a, stmt_b, k, shared, with_parser):
    """Run A until its k-th line event, run B to completion in another thread, resume A."""
    conn_a = ledger.connect(preempt_ledger(), ledger.default_options())
    conn_b = conn_a if shared else ledger.connect(preempt_ledger(1), ledger.default_options())
    out = {}
    count = [0]

    def tracer(frame, event, arg):
        filename = frame.f_code.co_filename
        if not filename.startswith(_REPO_DIR) or (not with_parser and filename.endswith(_PARSER_PY)):
            return None
        if event == 'line':
            if count[0] == k:
                tb = threading.Thread(target=lambda: out.__setitem__('b', _outcome(conn_b, stmt_b)))
                tb.start()
                tb.join()
            count[0] += 1
        return tracer

    def run_a():
        _sys.settrace(tracer)
        try:
            out['a'] = _outcome(conn_a, stmt_a)
        finally:
            _sys.settrace(None)
    ta = threading.Thread(target=run_a)
    ta.start()
    ta.join()
    return out.get('a'), out.get('b')


def _preempt_check(name_a, name_b, shared, with_parser, stride=1):
    stmt_a, stmt_b = PREEMPT_STATEMENTS[name_a], PREEMPT_STATEMENTS[name_b]
    if not with_parser:
        # parsing is not under test here (the generated parser's lines are excluded): parse once, execute copies of the tree
        stmt_a = (beanquery.parser.parse(stmt_a[0]), stmt_a[1])
        stmt_b = (beanquery.parser.parse(stmt_b[0]), stmt_b[1])
    serial_a = _outcome(ledger.connect(preempt_ledger(), ledger.default_options()), stmt_a)
    serial_b = _outcome(ledger.connect(preempt_ledger(0 if shared else 1), ledger.default_options()), stmt_b)
    points, total = _trace_points(stmt_a, with_parser, 2 if _os.environ.get('VERIF_TIER') == 'thorough' else 1)
    if with_parser:
        points = points[::7]
    elif stride > 1:
        points = points[::stride]
    for k in points:
        got_a, got_b = _preempted(stmt_a, stmt_b, k, shared, with_parser)
        if got_b is None:
            continue                    # the execution took another path and ended before the k-th line
        if got_a != serial_a:
            return f'suspended-statement-differs-from-serial (line event {k} of {total})'
        if got_b != serial_b:
            return f'preempting-statement-differs-from-serial (line event {k} of {total})'
    return 'ok'


def make_preempt(name_a, name_b, with_parser=False, quick=300, thorough=600, stride=1):
    @cond(f'C20.preempt.{name_a}-{name_b}', quick=quick, thorough=thorough,
          bounds=f'two threads, separate (ledgers differing in their open directives) or shared connection: '
                 f'"{PREEMPT_STATEMENTS[name_a][0][:60]}" is suspended once, at the first (thorough tier: also the second'
                 + (f'; quick tier of this pair: every {stride}th such point' if stride > 1 else '')
                 + ') occurrence of any source line of the tree under test it executes (compilation and execution'
                 + (', every 7th such point inside the generated parser too' if with_parser else '; lines of the generated parser '
                    'excluded') + f'), "{PREEMPT_STATEMENTS[name_b][0][:60]}" then runs to completion and the first one '
                 'resumes: both outcomes (rows and description, or the error with its location) equal serial execution',
          symbolic='connection sharing', enumerated='preemption point (looped natively inside one path; the solver is not involved)',
          params={'shared': bool}, group='C20.preempt', per_path_timeout=3000,
          note='single-preemption schedules at line granularity (sys.settrace in the suspended thread); schedules with two or '
               'more preemptions at this granularity are outside the bound (the switch-point schedules of C20.pair are the '
               'multi-switch family)')
    def preempt(shared):
        return native(_preempt_check, name_a, name_b, bool(shared), with_parser,
                      stride if _os.environ.get('VERIF_TIER') != 'thorough' else 1)
    return preempt


_QUICK_PREEMPT = [('maxwidth40', 'maxwidth16'), ('balance', 'balance'), ('aggregate', 'params'), ('period', 'balance'),
                  ('transactions2', 'transactions'), ('params', 'params2')]
# (JOURNAL / BALANCES parse their template during compilation: ~8 minutes of CPU per pair, thorough tier only)
for _a, _b in _QUICK_PREEMPT + [('maxwidth16', 'distinct'), ('aggregate', 'aggregate'), ('journal', 'balances'), ('balances', 'journal')]:
    make_preempt(_a, _b, quick=300 if (_a, _b) in _QUICK_PREEMPT else None, thorough=900)
# (BALANCES parses its template during compilation: every 6th preemption point in the quick tier)
make_preempt('balancesA', 'balancesB', quick=400, thorough=1200, stride=6)
make_preempt('opendates', 'opendates2', quick=300, thorough=900)
make_preempt('order2', 'order2b', quick=300, thorough=900)
make_preempt('convert', 'convert2', quick=300, thorough=900)
make_preempt('baddate', 'trivial', with_parser=True)
make_preempt('trivial', 'baddate', with_parser=True)
