"""C20 - Thread isolation: concurrent queries give the same results as serial execution.

Real threads run the real Cursor.execute; the interleaving is forced by scheduler-controlled BQL
functions registered through the public FUNCTIONS extension point (the mechanism named in the
property): ``ysync(x)`` is evaluated per row (a switch point between sub-expression evaluations)
and ``csync(k)`` is constant-folded, i.e. evaluated during compilation (a switch point inside the
compiler).  Exactly one thread runs at a time; the schedule - which thread proceeds at each switch
point - is the harness argument the solver enumerates.
"""

import datetime
import decimal
import threading

import beanquery
from beancount.core import amount, data
from beanquery import query_env, types

from .. import ledger
from ..h import cond, assume, cover, pick, enum_int, native

D = decimal.Decimal
A = amount.Amount
_LOCAL = threading.local()


class Scheduler:
    """Baton passing: one thread runs at a time, up to its next switch point."""

    def __init__(self, schedule, nthreads, round_robin=False):
        self.schedule = list(schedule)
        self.round_robin = round_robin
        self.last = -1
        self.cv = threading.Condition()
        self.turn = None
        self.parked = set()
        self.finished = set()
        self.nthreads = nthreads
        self.deadlock = False

    # -- called by worker threads
    def park(self, tid):
        with self.cv:
            self.parked.add(tid)
            self.turn = None
            self.cv.notify_all()
            while self.turn != tid:
                if not self.cv.wait(timeout=20):
                    self.deadlock = True
                    raise RuntimeError('scheduler deadlock')
            self.parked.discard(tid)

    def finish(self, tid):
        with self.cv:
            self.finished.add(tid)
            self.turn = None
            self.cv.notify_all()

    # -- called by the driver
    def drive(self):
        with self.cv:
            while len(self.finished) < self.nthreads:
                while self.turn is not None or len(self.parked) + len(self.finished) < self.nthreads:
                    if not self.cv.wait(timeout=20):
                        self.deadlock = True
                        return
                alive = sorted(self.parked)
                if not alive:
                    continue
                if self.schedule:
                    choice = self.schedule.pop(0)
                    tid = alive[choice % len(alive)]
                elif self.round_robin:          # schedule used up: strict alternation at every switch point
                    later = [t for t in alive if t > self.last]
                    tid = later[0] if later else alive[0]
                else:
                    tid = alive[0]              # schedule used up: run the threads to completion in order
                self.last = tid
                self.turn = tid
                self.cv.notify_all()


def _checkpoint():
    sched = getattr(_LOCAL, 'sched', None)
    if sched is not None:
        sched.park(_LOCAL.tid)


@query_env.function([types.Any], object, pass_row=True, name='ysync')
def _ysync(row, x):
    _checkpoint()
    return x


@query_env.function([bool], bool, pass_row=True, name='ysync')
def _ysync_bool(row, x):
    _checkpoint()
    return x


@query_env.function([int], int, name='csync')
def _csync(k):
    # pure: folded by the compiler, i.e. called during compilation
    _checkpoint()
    return k


def small_ledger(variant=0):
    opens = ledger.opens()
    t1 = ledger.txn(datetime.date(2019, 1, 2), [ledger.posting('Assets:Cash' if variant else 'Assets:Bank', D('1000.00'), 'USD'),
                                                ledger.posting('Income:Salary', D('-1000.00'), 'USD')], narration='salary', lineno=20)
    t2 = ledger.txn(datetime.date(2019, 1, 10), [ledger.posting('Expenses:Books' if variant else 'Expenses:Food',
                                                                D('12.50') + variant, 'USD'),
                                                 ledger.posting('Assets:Cash' if variant else 'Assets:Bank',
                                                                D('-12.50') - variant, 'USD')],
                    narration='lunch', flag='!', lineno=21)
    t3 = ledger.txn(datetime.date(2019, 2, 1), [ledger.posting('Expenses:Food', D('8.00'), 'USD'),
                                                ledger.posting('Assets:Cash' if variant else 'Liabilities:Card', D('-8.00'), 'USD')],
                    narration='dinner', lineno=22)
    return opens + [t1, t2, t3]


STATEMENTS = [
    ('SELECT ysync(account) AS a, balance, ysync(number) AS n, balance AS b2', None),
    ('SELECT account, ysync(count(*)) AS n, sum(number) AS s, max(number) AS m GROUP BY account ORDER BY account', None),
    ('SELECT csync(1) AS k, date, %s AS p, account WHERE number > %s AND ysync(TRUE)', (7, D('0'))),
    ('SELECT csync(1) AS k, date, %s AS p, account WHERE number > %s AND ysync(TRUE)', (9, D('-100'))),
    ("SELECT date, ysync(account) AS a FROM year = 2019 CLOSE ON 2019-01-15 WHERE account IN (SELECT account FROM #postings "
     "WHERE ysync(number > 100))", None),
    ('SELECT csync(2) AS k, ysync(account) AS a FROM #accounts', None),
    ('SELECT ysync(account) AS a, ysync(sum(number)) AS s, first(narration) AS f, last(date) AS l GROUP BY a', None),
    ('SELECT DISTINCT ysync(flag) AS f, csync(3) AS k ORDER BY f', None),
    ('SELECT ysync(account) AS a, other_accounts, ysync(number) AS n, other_accounts AS o2, tags, ysync(payee) AS p', None),
    ('SELECT ysync(date) AS d, ysync(narration) AS n, flag FROM #transactions', None),
    ('SELECT count(*) AS n, last(narration) AS l FROM #transactions', None),
]


_SERIAL = {}


def _serial(entries, stmt, key=None):
    if key is not None and key in _SERIAL:
        return _SERIAL[key]
    conn = ledger.connect(list(entries), ledger.default_options())
    text, params = stmt
    cur = conn.execute(text, params)
    result = [(c.name, c.datatype) for c in cur.description], cur.fetchall()
    if key is not None:
        _SERIAL[key] = result
    return result


def _concurrent(stmts, schedule, shared, ledgers, round_robin=False):
    nthreads = len(stmts)
    sched = Scheduler(schedule, nthreads, round_robin)
    if shared:
        conn = ledger.connect(list(ledgers[0]), ledger.default_options())
        conns = [conn] * nthreads
    else:
        conns = [ledger.connect(list(ledgers[i % len(ledgers)]), ledger.default_options()) for i in range(nthreads)]
    results = [None] * nthreads

    def work(tid):
        _LOCAL.sched, _LOCAL.tid = sched, tid
        try:
            sched.park(tid)
            text, params = stmts[tid]
            cur = conns[tid].cursor()
            cur.execute(text, params)
            results[tid] = ([(c.name, c.datatype) for c in cur.description], cur.fetchall())
        except Exception as exc:        # noqa
            results[tid] = ('raises', repr(exc))
        finally:
            _LOCAL.sched = None
            sched.finish(tid)
    threads = [threading.Thread(target=work, args=(i,), daemon=True) for i in range(nthreads)]
    for t in threads:
        t.start()
    sched.drive()
    for t in threads:
        t.join(timeout=20)
    if sched.deadlock or any(t.is_alive() for t in threads):
        return 'deadlock'
    return results


def _check(pair, schedule, shared, two_ledgers, round_robin=False):
    stmts = [STATEMENTS[k] for k in pair]
    ledgers = [small_ledger(0), small_ledger(1)] if two_ledgers else [small_ledger(0)]
    got = _concurrent(stmts, schedule, shared, ledgers, round_robin)
    if got == 'deadlock':
        return 'harness-deadlock'
    for tid, stmt in enumerate(stmts):
        variant = 0 if shared else tid % len(ledgers)
        want = _serial(ledgers[variant], stmt, key=(variant, pair[tid]))
        if got[tid] != want:
            return f'thread-{tid}-result-differs-from-serial'
    return 'ok'


def make_pair(i, j, shared, quick, thorough, nbits):
    mode = 'shared' if shared else 'separate'

    @cond(f'C20.pair.{i}-{j}.{mode}', quick=quick, thorough=thorough,
          bounds=f'two threads on {"one shared connection" if shared else "two connections (same or different ledgers)"}: '
                 f'"{STATEMENTS[i][0][:70]}..." and "{STATEMENTS[j][0][:70]}..."; every schedule of the first {nbits} switch '
                 'points (a switch point before each row / sub-expression marked with ysync and inside compilation at csync), the '
                 'rest either run to completion in thread order or alternate strictly at every remaining switch point; each '
                 'result equals its serial result',
          symbolic='the schedule (which thread proceeds at each switch point)' + ('' if shared else ', same / different ledger'),
          enumerated='statement pair and connection sharing (one condition each)',
          params={**{f's{k}': bool for k in range(nbits)}, 'tail': bool, **({} if shared else {'two': bool})}, group='C20.pair',
          note='one thread runs at a time (baton passing), so every schedule is a real interleaving at the granularity of the '
               'switch points; finer-grained interleavings (between bytecodes) are outside the bound')
    def pair(tail, two=False, **kw):
        schedule = [1 if kw[f's{k}'] else 0 for k in range(nbits)]
        return native(_check, (i, j), schedule, shared, bool(two) and not shared, bool(tail))


_QUICK_PAIRS = [(0, 0), (0, 1), (1, 1), (2, 3), (3, 5), (4, 0), (6, 6), (1, 6), (7, 2), (5, 5), (4, 4), (8, 8), (8, 0), (9, 10), (9, 9)]
for _i in range(len(STATEMENTS)):
    for _j in range(len(STATEMENTS)):
        if (_i, _j) in _QUICK_PAIRS:
            make_pair(_i, _j, True, 300, 900, 7)
            make_pair(_i, _j, False, 180, 600, 5)
        elif _i <= _j:
            make_pair(_i, _j, True, None, 900, 7)


@cond('C20.triple', quick=None, thorough=1500,
      bounds='three threads on one shared connection (statements 1, 2, 6), every schedule of the first 7 switch points (choice '
             'among the parked threads)', symbolic='the schedule', params={f's{k}': int for k in range(7)})
def triple(**kw):
    schedule = [enum_int(kw[f's{k}'], 0, 2) for k in range(7)]
    return native(_check, (1, 2, 6), schedule, True, False)


@cond('C20.serial-tie', quick=60,
      bounds='each statement executed alone through the scheduler (one thread): equals plain serial execution - ties the harness '
             'to the real executor', symbolic='(none)', enumerated='statement', params={'k': int})
def serial_tie(k):
    k = enum_int(k, 0, len(STATEMENTS) - 1)

    def run():
        got = _concurrent([STATEMENTS[k]], [], True, [small_ledger(0)])
        return 'ok' if got != 'deadlock' and got[0] == _serial(small_ledger(0), STATEMENTS[k]) else 'single-thread-differs'
    return native(run)


@cond('C20.declaration', quick=20, bounds='module attributes', symbolic='(none)', params={'x': bool})
def declaration(x):
    if beanquery.threadsafety != 2:
        return 'threadsafety-level'
    if beanquery.apilevel != '2.0' or beanquery.paramstyle != 'pyformat':
        return 'dbapi-attributes'
    return 'ok'
