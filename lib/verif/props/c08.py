"""C08 - Subqueries compose: FROM (subquery) / IN (subquery) equal their materialised forms."""

from typing import List, Optional, Tuple

import beanquery
from beanquery.parser import ast

from .. import refsem, sym
from ..h import cond, assume, cover, pick, enum_int, native
from ..printer import sel, col, const, target, func, select as print_select
from ..tables import HTable, connect, parse, execute
from .c01 import same, same_rows
from .c03 import KEYDOM

COLUMNS = [('a', int), ('b', int), ('k', int)]


def _rows(nrows, kw):
    return [(kw[f'a{i}'], kw[f'b{i}'], KEYDOM.build(f'k{i}', kw) if f'k{i}' in kw else i % 2) for i in range(nrows)]


def _params(nrows, with_k=True):
    p = {}
    for i in range(nrows):
        p[f'a{i}'] = Optional[int]
        p[f'b{i}'] = Optional[int]
        if with_k:
            p[f'k{i}'] = int
    return p


USES_K = ('aggregated', 'distinct')


# inner queries over #t, each with output columns named x [, y]
def _inner(kind, n):
    T = lambda e, name: target(e, name)  # noqa: E731
    if kind == 'plain':
        return sel([T(col('a'), 'x'), T(col('b'), 'y')], 't')
    if kind == 'filtered':
        return sel([T(col('a'), 'x'), T(col('b'), 'y')], 't', where=ast.Greater(col('b'), const(0)))
    if kind == 'aggregated':
        return sel([T(func('sum', col('a')), 'x'), T(col('k'), 'y')], 't', group_by=ast.GroupBy([col('k')], None))
    if kind == 'ordered-hidden':
        return sel([T(col('a'), 'x')], 't', order_by=[ast.OrderBy(col('b'), ast.Ordering.DESC)])
    if kind == 'distinct':
        return sel([T(col('k'), 'x')], 't', distinct=True)
    if kind == 'limit':
        return sel([T(col('a'), 'x'), T(col('b'), 'y')], 't', limit=n)
    if kind == 'swapped':
        return sel([T(col('b'), 'x'), T(col('a'), 'y')], 't')
    if kind == 'expression':
        return sel([T(ast.Add(col('a'), col('b')), 'x'), T(ast.IsNull(col('a')), 'y')], 't')
    if kind == 'with-k':
        return sel([T(col('a'), 'x'), T(col('k'), 'y')], 't')
    if kind == 'ordered-visible':
        return sel([T(col('a'), 'x'), T(col('k'), 'y')], 't', order_by=[ast.OrderBy(col('a'), ast.Ordering.DESC)])
    if kind == 'ordered-hidden-2':
        return sel([T(col('a'), 'x'), T(col('k'), 'y')], 't', order_by=[ast.OrderBy(col('b'), ast.Ordering.DESC)])
    if kind == 'bare':
        # bare columns: outputs named a, b  (outer refers to them through *)
        return sel([target(col('b')), target(col('a'))], 't')
    if kind == 'expr-named':
        return sel([target(ast.Add(col('a'), const(1)))], 't')
    raise KeyError(kind)


INNER = ['plain', 'filtered', 'aggregated', 'ordered-hidden', 'distinct', 'limit', 'swapped', 'expression']
OUTER = ['star', 'project', 'filter', 'aggregate', 'order', 'expr']


def _outer(kind, source, ncols):
    """Outer query over a source with columns x [, y]."""
    if kind == 'star':
        return sel(ast.Asterisk(), from_clause=source)
    if kind == 'project':
        return sel([target(col('x'))], from_clause=source)
    if kind == 'filter':
        return sel([target(col('x'))], from_clause=source, where=ast.IsNotNull(col('x')))
    if kind == 'aggregate':
        return sel([target(func('count', ast.Asterisk()), 'n'), target(func('count', col('x')), 'c')], from_clause=source)
    if kind == 'order':
        return sel([target(col('x'))], from_clause=source, order_by=[ast.OrderBy(col('x'), ast.Ordering.DESC)])
    if kind in ('distinct-limit-1', 'distinct-limit-2'):
        # DISTINCT is applied to the outer projection before its LIMIT
        return sel([target(col('y'))], from_clause=source, distinct=True, limit=int(kind[-1]))
    if kind == 'limit-2':
        return sel([target(col('y')), target(col('x'))], from_clause=source, limit=2)
    if kind == 'order-hidden-key':
        # the sort key is a subquery column that is not selected, of the same datatype as the selected one
        return sel([target(col('x'))], from_clause=source, order_by=[ast.OrderBy(col('y'), ast.Ordering.DESC)])
    if kind == 'order-hidden-expr':
        return sel([target(ast.Neg(col('x')), 'nx')], from_clause=source, order_by=[ast.OrderBy(ast.Neg(col('y')), ast.Ordering.ASC)])
    if kind == 'order-ties':
        # stable sort on a key with ties: rows with equal y keep the order the source delivers them in
        return sel([target(col('x')), target(col('y'))], from_clause=source, order_by=[ast.OrderBy(col('y'), ast.Ordering.ASC)])
    if kind == 'first-last':
        return sel([target(col('y')), target(func('first', col('x')), 'f'), target(func('last', col('x')), 'l')],
                   from_clause=source, group_by=ast.GroupBy([col('y')], None), order_by=[ast.OrderBy(col('y'), ast.Ordering.DESC)])
    if kind == 'first-last-plain':
        return sel([target(func('first', col('x')), 'f'), target(func('last', col('x')), 'l')], from_clause=source)
    if kind == 'expr':
        return sel([target(ast.IsNull(col('x')), 'z')] + ([target(col('y'))] if ncols > 1 else []), from_clause=source)
    raise KeyError(kind)


def _exec(conn, stmt):
    text = native(print_select, stmt)
    description, rows = execute(conn, parse(text))
    return [(c.name, c.datatype) for c in description], rows


def _compose_check(conn, inner, outer_kind):
    """nested execution == outer over the materialised inner result (real code on both sides)."""
    inner_desc, inner_rows = _exec(conn, inner)
    nested_desc, nested_rows = _exec(conn, _outer(outer_kind, inner, len(inner_desc)))
    conn.tables['m'] = HTable('m', inner_desc, inner_rows)
    flat_desc, flat_rows = _exec(conn, _outer(outer_kind, ast.Table('m'), len(inner_desc)))
    if nested_desc != flat_desc:
        return 'description'
    if not same_rows(nested_rows, flat_rows):
        return 'rows'
    if outer_kind == 'star':
        if nested_desc != inner_desc:
            return 'star-description'
        if not same_rows(nested_rows, inner_rows):
            return 'star-rows'
    return None


def make_from(kind, nrows, quick, thorough):
    @cond(f'C08.from.{kind}.{nrows}rows', quick=quick, thorough=thorough,
          bounds=f'base table of {nrows} rows (a, b symbolic ints or NULL; k in {{NULL,0,1}} enumerated); inner query '
                 f'"{kind}" (LIMIT n with n symbolic 0..3); outer query one of {OUTER}',
          symbolic='a, b cells, LIMIT n', enumerated='k cells, outer query shape (selector)',
          params={**_params(nrows, kind in USES_K), 'outer': int, 'n': int}, group='C08.from',
          note='metamorphic: the oracle is the real code run on the materialised inner result')
    def from_cond(outer, n, **kw):
        n = enum_int(n, 0, 3) if kind == 'limit' else 0
        rows = _rows(nrows, kw)
        conn = connect(t=HTable('t', COLUMNS, rows))
        label = _compose_check(conn, _inner(kind, n), pick(OUTER, outer))
        return label or 'ok'


for _kind in INNER:
    make_from(_kind, 2, 180, 400)
    make_from(_kind, 3, None if _kind in USES_K else 300, 1500)


ORDER_SENSITIVE = ['order-ties', 'first-last', 'first-last-plain', 'order-hidden-key', 'order-hidden-expr']


def make_from_order(kind, nrows, quick, thorough):
    @cond(f'C08.from.order-kept.{kind}.{nrows}rows', quick=quick, thorough=thorough,
          bounds=f'base table of {nrows} rows (a, b symbolic ints or NULL; k in {{NULL,0,1}} enumerated); inner query "{kind}" '
                 f'(ORDER BY a visible / hidden key, no LIMIT); order-sensitive outer queries {ORDER_SENSITIVE}: a stable outer '
                 'sort with ties and first() / last() see the rows in the order the inner query returns them',
          symbolic='a, b cells', enumerated='k cells, outer query shape (selector)',
          params={**_params(nrows, True), 'outer': int}, group='C08.from',
          note='metamorphic: the oracle is the real code run on the materialised inner result')
    def from_order(outer, **kw):
        rows = _rows(nrows, kw)
        conn = connect(t=HTable('t', COLUMNS, rows))
        label = _compose_check(conn, _inner(kind, 0), pick(ORDER_SENSITIVE, outer))
        return label or 'ok'


for _kind in ('ordered-visible', 'ordered-hidden-2'):
    make_from_order(_kind, 2, 240, 600)
    make_from_order(_kind, 3, None, 1500)


OUTER_CUTS = ['distinct-limit-1', 'distinct-limit-2', 'limit-2']


@cond('C08.from.outer-distinct-limit', quick=180, thorough=400,
      bounds=f'base table of 3 rows (a symbolic int or NULL; k in {{NULL,0,1}} enumerated); inner queries SELECT a AS x, k AS y [ORDER BY a '
             f'DESC]; outer queries {OUTER_CUTS} (SELECT DISTINCT y ... LIMIT n / SELECT y, x ... LIMIT 2): the outer DISTINCT and '
             'LIMIT apply to the outer rows, the inner query still returns all of its rows',
      symbolic='a cells', enumerated='k cells, inner and outer query shape (selectors)',
      params={'a0': Optional[int], 'a1': Optional[int], 'a2': Optional[int], 'k0': int, 'k1': int, 'k2': int,
              'outer': int, 'ordered': bool}, group='C08.from',
      note='metamorphic: the oracle is the real code run on the materialised inner result')
def from_outer_distinct_limit(outer, ordered, **kw):
    rows = [(kw[f'a{i}'], 0, KEYDOM.build(f'k{i}', kw)) for i in range(3)]
    conn = connect(t=HTable('t', COLUMNS, rows))
    label = _compose_check(conn, _inner('ordered-visible' if ordered else 'with-k', 0), pick(OUTER_CUTS, outer))
    return label or 'ok'


TYPED_INNERS = [
    lambda: sel([target(col('a'), 'x'), target(col('b'), 'y')], 't'),                              # int, int
    lambda: sel([target(ast.IsNull(col('a')), 'x'), target(col('b'), 'y')], 't'),                  # bool, int
    lambda: sel([target(col('b'), 'y'), target(col('a'), 'x')], 't'),                              # order swapped
    lambda: sel([target(ast.Div(col('k'), const(2)), 'x'), target(ast.IsNotNull(col('b')), 'y')], 't'),  # Decimal, bool
    lambda: sel([target(col('a'), 'x')], 't'),                                                      # one column
]


@cond('C08.from.history', quick=180, thorough=600,
      bounds='2 rows; two nested queries SELECT * FROM (inner_i), SELECT * FROM (inner_j) executed one after the other '
             'in one process, inner queries with equally named outputs of different datatypes / order / count: '
             'each nested result and description equals the inner query\'s own',
      symbolic='a, b cells', enumerated='the two inner queries (selectors), k cells fixed',
      params={**_params(2, False), 'i': int, 'j': int})
def from_history(i, j, **kw):
    rows = _rows(2, kw)
    conn = connect(t=HTable('t', COLUMNS, rows))
    for k in (i, j):
        inner = pick(TYPED_INNERS, k)()
        d0, r0 = _exec(conn, inner)
        d1, r1 = _exec(conn, sel(ast.Asterisk(), from_clause=inner))
        if d1 != d0:
            return 'star-description-depends-on-history'
        if not same_rows(r1, r0):
            return 'star-rows-depend-on-history'
    return 'ok'


@cond('C08.from.names', quick=120,
      bounds='2 rows (a, b symbolic ints or NULL); SELECT * FROM (SELECT b, a FROM #t) and SELECT * FROM (SELECT a + 1 FROM #t): '
             'output names and datatypes of the inner query are the columns of the outer one',
      symbolic='cells', enumerated='two inner forms', params={**_params(2, False), 'form': bool})
def from_names(form, **kw):
    rows = _rows(2, kw)
    conn = connect(t=HTable('t', COLUMNS, rows))
    inner = _inner('bare' if form else 'expr-named', 0)
    inner_desc, inner_rows = _exec(conn, inner)
    desc, got = _exec(conn, sel(ast.Asterisk(), from_clause=inner))
    if desc != inner_desc:
        return 'star-description'
    if not same_rows(got, inner_rows):
        return 'star-rows'
    if form:
        # addressable by the inner output names
        desc2, got2 = _exec(conn, sel([target(col('a')), target(col('b'))], from_clause=inner))
        if [n for n, _ in desc2] != ['a', 'b'] or not same_rows(got2, [(r[0], r[1]) for r in rows]):
            return 'addressing-by-name'
    return 'ok'


@cond('C08.from.depth3', quick=180, thorough=600,
      bounds='2 rows; SELECT x FROM (SELECT * FROM (inner)) WHERE x IS NOT NULL for each inner query kind',
      symbolic='a, b cells', enumerated='k cells; inner kind (selector)',
      params={**_params(2, False), 'kind': int, 'n': int})
def from_depth3(kind, n, **kw):
    n = enum_int(n, 0, 2)
    rows = _rows(2, kw)
    conn = connect(t=HTable('t', COLUMNS, rows))
    inner = _inner(pick(INNER, kind), n)
    mid = sel(ast.Asterisk(), from_clause=inner)
    label = _compose_check(conn, mid, 'filter')
    if label:
        return label
    d1, r1 = _exec(conn, mid)
    d0, r0 = _exec(conn, inner)
    if d1 != d0 or not same_rows(r1, r0):
        return 'star-of-star'
    return 'ok'


# ---------------------------------------------------------------------------
# IN (subquery)

UCOLS = [('c', int), ('d', int)]


def make_in(form, negated):
    name = ('not-in' if negated else 'in') + '.' + form

    @cond(f'C08.in.{name}', quick=180, thorough=600,
          bounds='outer table t of <=2 rows (a symbolic int or NULL), inner table u of <=2 rows (c, d symbolic ints or NULL); '
                 'x [NOT] IN (SELECT c FROM #u [WHERE d > 0]) as ' + form,
          symbolic='all cells, both row counts, inner WHERE presence', group='C08.in')
    def in_cond(trows: List[Tuple[Optional[int]]], urows: List[Tuple[Optional[int], Optional[int]]],
                inner_where: bool) -> str:
        assume(len(trows) <= 2 and len(urows) <= 2)
        tcols = [('a', int)]
        conn = connect(t=HTable('t', tcols, list(trows)), u=HTable('u', UCOLS, list(urows)))
        sub = sel([target(col('c'))], 'u', where=ast.Greater(col('d'), const(0)) if inner_where else None)
        test = (ast.NotIn if negated else ast.In)(col('a'), sub)
        if form == 'target':
            stmt = sel([target(col('a'), 'a'), target(test, 'r')], 't')
        else:
            stmt = sel([target(col('a'), 'a')], 't', where=test)
        text = native(print_select, stmt)
        got = conn.execute(parse(text)).fetchall()
        want = refsem.Ref({'t': (tcols, list(trows)), 'u': (UCOLS, list(urows))}).select(stmt)
        if not same_rows(got, want.rows):
            return 'membership'
        if not urows:
            cover('empty-subquery')
        return 'ok'


for _form in ('target', 'where'):
    for _neg in (False, True):
        make_in(_form, _neg)


def make_in_nested(outer_form):
    @cond(f'C08.in.nested.{outer_form}', quick=500, thorough=1200,
          bounds='tables t (a, b) and u (c, d) of <=2 rows, w (e) of <=1 row; a, d, e symbolic ints or NULL, b, c symbolic ints; '
                 'depth 3 over three different tables: a [NOT] IN (SELECT c FROM #u WHERE d [NOT] IN (SELECT e FROM #w)) '
                 + {'where': 'as the first WHERE conjunct of SELECT a, b FROM #t, followed by AND b IS NOT NULL and ORDER BY b '
                             '(the statement keeps compiling against its own table after the nested SELECTs)',
                    'target': 'as a target of SELECT a, <test> AS r, b FROM #t ORDER BY b',
                    'from': 'in the WHERE clause of SELECT x, y FROM (SELECT a AS x, b AS y FROM #t) ... ORDER BY y'}[outer_form],
          symbolic='all cells, the three row counts, both negations', group='C08.in')
    def in_nested(trows: List[Tuple[Optional[int], int]], urows: List[Tuple[int, Optional[int]]],
                  wrows: List[Tuple[Optional[int]]], neg1: bool, neg2: bool) -> str:
        assume(len(trows) <= 2 and len(urows) <= 2 and len(wrows) <= 1)
        tcols, wcols = [('a', int), ('b', int)], [('e', int)]
        conn = connect(t=HTable('t', tcols, list(trows)), u=HTable('u', UCOLS, list(urows)), w=HTable('w', wcols, list(wrows)))
        innermost = sel([target(col('e'))], 'w')
        middle = sel([target(col('c'))], 'u', where=(ast.NotIn if neg2 else ast.In)(col('d'), innermost))
        if outer_form == 'from':
            base = sel([target(col('a'), 'x'), target(col('b'), 'y')], 't')
            test = (ast.NotIn if neg1 else ast.In)(col('x'), middle)
            stmt = sel([target(col('x')), target(col('y'))], from_clause=base,
                       where=ast.And([test, ast.IsNotNull(col('y'))]), order_by=[ast.OrderBy(col('y'), ast.Ordering.ASC)])
        else:
            test = (ast.NotIn if neg1 else ast.In)(col('a'), middle)
            order = [ast.OrderBy(col('b'), ast.Ordering.ASC)]
            if outer_form == 'where':
                stmt = sel([target(col('a')), target(col('b'))], 't', where=ast.And([test, ast.IsNotNull(col('b'))]),
                           order_by=order)
            else:
                stmt = sel([target(col('a')), target(test, 'r'), target(col('b'))], 't', order_by=order)
        text = native(print_select, stmt)
        cur = conn.execute(parse(text))
        got = cur.fetchall()
        want = refsem.Ref({'t': (tcols, list(trows)), 'u': (UCOLS, list(urows)), 'w': (wcols, list(wrows))}).select(stmt)
        if [c.name for c in cur.description] != want.names:
            return 'names'
        if not same_rows(got, want.rows):
            return 'nested-membership'
        return 'ok'


for _form in ('where', 'target', 'from'):
    make_in_nested(_form)


@cond('C08.in.top-n', quick=240, thorough=600,
      bounds='outer table t of 1 row (a symbolic int), inner table u of exactly 3 rows (c, d symbolic ints, d pairwise distinct); '
             'a [NOT] IN (SELECT c FROM #u ORDER BY d [DESC] LIMIT n) and (SELECT DISTINCT c FROM #u ORDER BY c [DESC] LIMIT n), n in 0..3: '
             'membership in the top-n rows (the inner ORDER BY decides which rows the LIMIT keeps, DISTINCT comes before LIMIT)',
      symbolic='all cells, direction, negation', enumerated='n', group='C08.in',
      params={'a': int, 'c0': int, 'c1': int, 'c2': int, 'd0': int, 'd1': int, 'd2': int, 'n': int, 'desc': bool, 'neg': bool,
              'dist': bool})
def in_top_n(a, c0, c1, c2, d0, d1, d2, n, desc, neg, dist):
    n = enum_int(n, 0, 3)
    assume(d0 != d1 and d1 != d2 and d0 != d2)
    tcols = [('a', int)]
    trows, urows = [(a,)], [(c0, d0), (c1, d1), (c2, d2)]
    conn = connect(t=HTable('t', tcols, trows), u=HTable('u', UCOLS, urows))
    sub = sel([target(col('c'))], 'u', order_by=[ast.OrderBy(col('d'), ast.Ordering.DESC if desc else ast.Ordering.ASC)], limit=n)
    stmt = sel([target(col('a'), 'a'), target((ast.NotIn if neg else ast.In)(col('a'), sub), 'r')], 't')
    if dist:
        # DISTINCT c ORDER BY c LIMIT n: duplicates must not use up the LIMIT
        sub = sel([target(col('c'))], 'u', order_by=[ast.OrderBy(col('c'), ast.Ordering.DESC if desc else ast.Ordering.ASC)], limit=n,
                  distinct=True)
        stmt = sel([target(col('a'), 'a'), target((ast.NotIn if neg else ast.In)(col('a'), sub), 'r')], 't')
    text = native(print_select, stmt)
    got = conn.execute(parse(text)).fetchall()
    # written out: the n rows of u with the smallest (largest) d
    kept = sorted(urows, key=lambda r: r[1], reverse=bool(desc))[:n]
    if dist:
        values = []
        for r in sorted(urows, key=lambda r: r[0], reverse=bool(desc)):
            if r[0] not in values:
                values.append(r[0])
        kept = [(v, None) for v in values[:n]]
    member = None if not kept else (a in [r[0] for r in kept])
    want = [(a, None if member is None else (member != bool(neg)))]
    if not same_rows(got, want):
        return 'membership-in-the-top-n-rows'
    return 'ok'


@cond('C08.from.rescanned', quick=180, thorough=400,
      bounds='2..3 rows (a, b symbolic ints; k in {NULL,0,1}); SELECT x, y FROM (SELECT a AS x, b AS y FROM #t) WHERE y IN (SELECT y WHERE '
             'y > 0): the IN-subquery has no FROM of its own and reads the enclosing subquery table again: both scans see all of its rows',
      symbolic='a, b cells', enumerated='row count', params={'a0': int, 'a1': int, 'a2': int, 'b0': int, 'b1': int, 'b2': int, 'three': bool},
      group='C08.from')
def from_rescanned(a0, a1, a2, b0, b1, b2, three):
    rows = [(a0, b0, 0), (a1, b1, 1)] + ([(a2, b2, 0)] if three else [])
    conn = connect(t=HTable('t', COLUMNS, rows))
    inner = sel([target(col('a'), 'x'), target(col('b'), 'y')], 't')
    sub = sel([target(col('y'))], where=ast.Greater(col('y'), const(0)))
    stmt = sel([target(col('x')), target(col('y'))], from_clause=inner, where=ast.In(col('y'), sub))
    text = native(print_select, stmt)
    got = conn.execute(parse(text)).fetchall()
    positive = [r[1] for r in rows if r[1] > 0]
    want = [(r[0], r[1]) for r in rows if positive and r[1] in positive]
    if not same_rows(got, want):
        return 'subquery-table-scanned-twice'
    return 'ok'


DEC_CELLS = [None, 0, 1, 2]


@cond('C08.in.mixed-numeric', quick=120,
      bounds='x [NOT] IN (subquery) with x int and the subquery column decimal, and the reverse (BQL compares int and decimal): '
             'outer table of 2 rows, inner of <=2 rows, cells from {NULL, 0, 1, 2} (as int or as decimal)',
      symbolic='(none)', enumerated='cells, inner row count, negation, which side is decimal',
      params={'a0': int, 'a1': int, 'c0': int, 'c1': int, 'n': int, 'neg': bool, 'dec_outer': bool}, group='C08.in',
      note='enumerated: a symbolic int cannot meet a C Decimal (R3)')
def in_mixed_numeric(a0, a1, c0, c1, n, neg, dec_outer):
    import decimal
    D = decimal.Decimal
    n = enum_int(n, 0, 2)
    avals = [pick(DEC_CELLS, a0), pick(DEC_CELLS, a1)]
    cvals = [pick(DEC_CELLS, c0), pick(DEC_CELLS, c1)][:n]
    dec_outer = bool(dec_outer)
    cast = lambda v, dec: None if v is None else (D(v) if dec else v)    # noqa: E731
    tcols, ucols = [('a', D if dec_outer else int)], [('c', int if dec_outer else D)]
    trows = [(cast(v, dec_outer),) for v in avals]
    urows = [(cast(v, not dec_outer),) for v in cvals]
    conn = connect(t=HTable('t', tcols, trows), u=HTable('u', ucols, urows))
    test = (ast.NotIn if neg else ast.In)(col('a'), sel([target(col('c'))], 'u'))
    stmt = sel([target(col('a'), 'a'), target(test, 'r')], 't')
    text = native(print_select, stmt)
    try:
        got = conn.execute(parse(text)).fetchall()
    except beanquery.CompilationError:
        return 'int-decimal-membership-rejected'
    want = refsem.Ref({'t': (tcols, trows), 'u': (ucols, urows)}).select(stmt)
    if not same_rows(got, want.rows):
        return 'membership'
    return 'ok'


@cond('C08.in.cols', quick=30, bounds='x IN (SELECT c, d FROM #u): two-column subquery must be rejected',
      symbolic='(none)', params={'neg': bool})
def in_cols(neg):
    conn = connect(t=HTable('t', [('a', int)], [(1,)]), u=HTable('u', UCOLS, [(1, 2)]))
    sub = sel([target(col('c')), target(col('d'))], 'u')
    stmt = sel([target((ast.NotIn if neg else ast.In)(col('a'), sub), 'r')], 't')
    try:
        conn.execute(stmt)
    except beanquery.CompilationError:
        return 'ok'
    except Exception as exc:
        return 'raises-' + type(exc).__name__
    return 'two-column-subquery-accepted'


@cond('C08.in.same-table', quick=120,
      bounds='<=2 rows (a, b symbolic ints or NULL); a IN (SELECT b FROM #t) over the same table, then ORDER BY a',
      symbolic='cells, row count')
def in_same_table(rows: List[Tuple[Optional[int], Optional[int]]]) -> str:
    assume(len(rows) <= 2)
    cols = [('a', int), ('b', int)]
    conn = connect(t=HTable('t', cols, list(rows)))
    sub = sel([target(col('b'))], 't')
    stmt = sel([target(col('a'), 'a'), target(ast.In(col('a'), sub), 'r')], 't',
               order_by=[ast.OrderBy(col('b'), ast.Ordering.ASC)])
    got = conn.execute(stmt).fetchall()
    want = refsem.Ref({'t': (cols, list(rows))}).select(stmt)
    if not same_rows(got, want.rows):
        return 'membership'
    return 'ok'
