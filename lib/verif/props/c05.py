"""C05 - Static validation is complete; rejections are ParseError / CompilationError only."""

import datetime
import decimal
import itertools
from typing import Optional

import beanquery
from beanquery import shell
from beanquery.parser import ast

from .. import refsem, sym
from ..h import cond, assume, cover, pick, enum_int, native
from ..printer import sel, col, const, target, func, select as print_select
from ..tables import HTable, connect, parse, parse_fresh, execute
from .c01 import _UTable

D = decimal.Decimal
COLS = [('a', int), ('b', int), ('s', str), ('m', dict), ('st', set), ('x', D), ('p', bool), ('o', object)]
ROW = (1, 2, 'txt', {'k': 1}, {1, 2}, D('1.5'), True, None)
UCOLS = [('c', int), ('d', int)]


def _conn():
    return connect(t=HTable('t', COLS, [ROW]), u=HTable('u', UCOLS, [(1, 2)]),
                   postings=_UTable('postings', COLS, [ROW]), w=HTable('w', [('meta', dict), ('a', int)], [({'k': 'v'}, 1)]))


def verdict(fn):
    """'accept', 'reject' (ParseError / CompilationError / ProgrammingError), or 'raises-<Exception>'."""
    try:
        fn()
        return 'accept'
    except beanquery.ProgrammingError:
        return 'reject'
    except Exception as exc:
        return 'raises-' + type(exc).__name__


def _check(stmt, want, conn=None, params=None):
    conn = conn or _conn()
    got = verdict(lambda: conn.execute(stmt, params).fetchall())
    if got.startswith('raises-'):
        return got
    if got != want:
        return 'accepted-invalid' if got == 'accept' else 'rejected-valid'
    return None


SUM_A = lambda: func('sum', col('a'))      # noqa: E731
COUNT = lambda: func('count', ast.Asterisk())  # noqa: E731
GB = lambda *c: ast.GroupBy(list(c), None)     # noqa: E731

# (name, builder, expected verdict), one rule of the property per group
RULES = {
    'aggregate-placement': [
        ('agg in WHERE', lambda: sel([target(col('a'))], 't', where=ast.Greater(SUM_A(), const(0))), 'reject'),
        ('agg in FROM', lambda: sel([target(col('a'))], from_clause=ast.From(ast.Greater(SUM_A(), const(0)))), 'reject'),
        ('agg grouping key', lambda: sel([target(COUNT(), 'n')], 't', group_by=GB(SUM_A())), 'reject'),
        ('agg grouping key by position', lambda: sel([target(SUM_A(), 's1'), target(col('b'))], 't', group_by=GB(1)), 'reject'),
        ('agg grouping key by name', lambda: sel([target(SUM_A(), 's1'), target(col('b'))], 't', group_by=GB(col('s1'))), 'reject'),
        ('agg of agg', lambda: sel([target(func('sum', SUM_A()), 'r')], 't'), 'reject'),
        ('agg of agg nested', lambda: sel([target(func('max', ast.Add(SUM_A(), const(1))), 'r')], 't'), 'reject'),
        ('mixed target', lambda: sel([target(ast.Add(SUM_A(), col('b')), 'r')], 't', group_by=GB(col('b'))), 'reject'),
        ('mixed order by', lambda: sel([target(col('b'))], 't', group_by=GB(col('b')),
                                       order_by=[ast.OrderBy(ast.Add(SUM_A(), col('b')), ast.Ordering.ASC)]), 'reject'),
        ('mixed having', lambda: sel([target(col('b'))], 't',
                                     group_by=ast.GroupBy([col('b')], ast.Greater(ast.Add(SUM_A(), col('b')), const(0)))), 'reject'),
        ('plain aggregate', lambda: sel([target(col('b')), target(SUM_A(), 'r')], 't', group_by=GB(col('b'))), 'accept'),
        ('arith over aggregates', lambda: sel([target(ast.Add(SUM_A(), COUNT()), 'r')], 't'), 'accept'),
        ('agg order by', lambda: sel([target(col('b'))], 't', group_by=GB(col('b')),
                                     order_by=[ast.OrderBy(SUM_A(), ast.Ordering.DESC)]), 'accept'),
        ('all targets aggregates, order by bare column', lambda: sel([target(COUNT(), 'n')], 't',
                                                                     order_by=[ast.OrderBy(col('a'), ast.Ordering.ASC)]), 'reject'),
        ('all targets aggregates, order by expression', lambda: sel([target(SUM_A(), 's1')], 't',
                                                                    order_by=[ast.OrderBy(ast.Add(col('b'), const(1)), ast.Ordering.DESC)]), 'reject'),
        ('all targets aggregates, order by aggregate', lambda: sel([target(COUNT(), 'n')], 't',
                                                                   order_by=[ast.OrderBy(SUM_A(), ast.Ordering.ASC)]), 'accept'),
        ('agg in WHERE under BETWEEN', lambda: sel([target(col('a'))], 't', where=ast.Between(SUM_A(), const(0), const(1))), 'reject'),
        ('agg in WHERE as BETWEEN bound', lambda: sel([target(col('a'))], 't', where=ast.Between(col('a'), const(0), SUM_A())), 'reject'),
        ('agg in FROM under BETWEEN', lambda: sel([target(col('a'))],
                                                  from_clause=ast.From(ast.Between(SUM_A(), const(0), const(1)))), 'reject'),
        ('agg grouping key under BETWEEN', lambda: sel([target(COUNT(), 'n')], 't',
                                                       group_by=GB(ast.Between(SUM_A(), const(0), const(1)))), 'reject'),
        ('agg of agg under BETWEEN', lambda: sel([target(func('count', ast.Between(SUM_A(), const(0), const(1))), 'r')], 't'), 'reject'),
        ('mixed BETWEEN target', lambda: sel([target(ast.Between(col('b'), const(0), SUM_A()), 'r')], 't', group_by=GB(col('a'))), 'reject'),
        ('having BETWEEN aggregate', lambda: sel([target(col('b'))], 't',
                                                 group_by=ast.GroupBy([col('b')], ast.Between(SUM_A(), const(0), const(1000)))), 'accept'),
        ('order by BETWEEN aggregate', lambda: sel([target(col('b'))], 't', group_by=GB(col('b')),
                                                   order_by=[ast.OrderBy(ast.Between(SUM_A(), const(0), const(1000)), ast.Ordering.ASC)]), 'accept'),
        ('agg in WHERE subquery is fine', lambda: sel([target(col('a'))], 't',
                                                      where=ast.In(col('a'), sel([target(func('max', col('c')), 'mx')], 'u'))), 'accept'),
    ],
    'group-coverage': [
        ('uncovered target', lambda: sel([target(col('a')), target(col('b')), target(COUNT(), 'n')], 't', group_by=GB(col('a'))), 'reject'),
        ('uncovered expression', lambda: sel([target(ast.Add(col('a'), const(1)), 'e'), target(COUNT(), 'n')], 't', group_by=GB(col('a'))), 'reject'),
        ('covered by expression', lambda: sel([target(ast.Add(col('a'), const(1)), 'e'), target(COUNT(), 'n')], 't',
                                              group_by=GB(ast.Add(col('a'), const(1)))), 'accept'),
        ('covered by position', lambda: sel([target(col('a')), target(col('b')), target(COUNT(), 'n')], 't', group_by=GB(1, 2)), 'accept'),
        ('implicit grouping', lambda: sel([target(col('a')), target(COUNT(), 'n')], 't'), 'accept'),
        ('group by without aggregates', lambda: sel([target(col('a'))], 't', group_by=GB(col('a'))), 'accept'),
        ('group by without aggregates uncovered', lambda: sel([target(col('a')), target(col('b'))], 't', group_by=GB(col('a'))), 'reject'),
        ('having non aggregate', lambda: sel([target(col('a')), target(COUNT(), 'n')], 't',
                                             group_by=ast.GroupBy([col('a')], ast.Greater(col('a'), const(0)))), 'reject'),
        ('having aggregate', lambda: sel([target(col('a'))], 't',
                                         group_by=ast.GroupBy([col('a')], ast.Greater(COUNT(), const(0)))), 'accept'),
        ('unhashable key', lambda: sel([target(col('m')), target(COUNT(), 'n')], 't', group_by=GB(col('m'))), 'reject'),
        ('unhashable key set', lambda: sel([target(COUNT(), 'n')], 't', group_by=GB(col('st'))), 'reject'),
        ('unhashable implicit key', lambda: sel([target(col('st')), target(COUNT(), 'n')], 't'), 'reject'),
        ('unhashable key by position', lambda: sel([target(col('m')), target(COUNT(), 'n')], 't', group_by=GB(1)), 'reject'),
        ('unhashable key by position 2', lambda: sel([target(COUNT(), 'n'), target(col('st'))], 't', group_by=GB(2)), 'reject'),
        ('unhashable key by alias', lambda: sel([target(col('m'), 'mm'), target(COUNT(), 'n')], 't', group_by=GB(col('mm'))), 'reject'),
        ('hashable key by position', lambda: sel([target(col('s')), target(COUNT(), 'n')], 't', group_by=GB(1)), 'accept'),
    ],
    'names': [
        ('unknown table', lambda: sel([target(const(1), 'c')], 'nosuch'), 'reject'),
        ('unknown column', lambda: sel([target(col('zz'))], 't'), 'reject'),
        ('unknown column in where', lambda: sel([target(col('a'))], 't', where=ast.Greater(col('zz'), const(0))), 'reject'),
        ('unknown column in order', lambda: sel([target(col('a'))], 't', order_by=[ast.OrderBy(col('zz'), ast.Ordering.ASC)]), 'reject'),
        ('unknown column in group', lambda: sel([target(COUNT(), 'n')], 't', group_by=GB(col('zz'))), 'reject'),
        ('unknown function', lambda: sel([target(func('nosuchfn', col('a')), 'r')], 't'), 'reject'),
        ('function wrong arity', lambda: sel([target(func('length'), 'r')], 't'), 'reject'),
        ('function wrong types', lambda: sel([target(func('length', col('a')), 'r')], 't'), 'reject'),
        ('function ok', lambda: sel([target(func('length', col('s')), 'r')], 't'), 'accept'),
        ('attribute of non structure', lambda: sel([target(ast.Attribute(col('a'), 'year'), 'r')], 't'), 'reject'),
        ('subscript of non dict', lambda: sel([target(ast.Subscript(col('s'), 'k'), 'r')], 't'), 'reject'),
        ('subscript of dict', lambda: sel([target(ast.Subscript(col('m'), 'k'), 'r')], 't'), 'accept'),
        ('subscript missing key', lambda: sel([target(ast.Subscript(col('m'), 'zz'), 'r')], 't'), 'accept'),
        ('order by target name', lambda: sel([target(col('a'), 'q')], 't', order_by=[ast.OrderBy(col('q'), ast.Ordering.ASC)]), 'accept'),
        ('column of subquery', lambda: sel([target(col('y'))], from_clause=sel([target(col('a'), 'y')], 't')), 'accept'),
        ('inner column not visible outside', lambda: sel([target(col('a'))], from_clause=sel([target(col('a'), 'y')], 't')), 'reject'),
    ],
    'clauses': [
        ('coalesce uniform', lambda: sel([target(func('coalesce', col('a'), col('b')), 'r')], 't'), 'accept'),
        ('coalesce mixed', lambda: sel([target(func('coalesce', col('a'), col('s')), 'r')], 't'), 'reject'),
        ('coalesce mixed 3rd', lambda: sel([target(func('coalesce', col('a'), col('b'), col('x')), 'r')], 't'), 'reject'),
        ('coalesce empty', lambda: sel([target(func('coalesce'), 'r')], 't'), 'reject'),
        ('coalesce single', lambda: sel([target(func('coalesce', col('a')), 'r')], 't'), 'accept'),
        ('in subquery 1 column', lambda: sel([target(ast.In(col('a'), sel([target(col('c'))], 'u')), 'r')], 't'), 'accept'),
        ('in subquery 2 columns', lambda: sel([target(ast.In(col('a'), sel([target(col('c')), target(col('d'))], 'u')), 'r')], 't'), 'reject'),
        ('not in subquery 2 columns', lambda: sel([target(ast.NotIn(col('a'), sel([target(col('c')), target(col('d'))], 'u')), 'r')], 't'), 'reject'),
        ('in list', lambda: sel([target(ast.In(col('a'), const([1, 2])), 'r')], 't'), 'accept'),
        ('in set column', lambda: sel([target(ast.In(col('a'), col('st')), 'r')], 't'), 'accept'),
        ('in scalar', lambda: sel([target(ast.In(col('a'), col('b')), 'r')], 't'), 'reject'),
        ('in constant scalar', lambda: sel([target(ast.In(const(1), const(2)), 'r')], 't'), 'reject'),
        ('not in string', lambda: sel([target(ast.NotIn(col('a'), col('s')), 'r')], 't'), 'reject'),
        ('between mixed', lambda: sel([target(ast.Between(col('a'), col('s'), col('b')), 'r')], 't'), 'reject'),
        ('between ok', lambda: sel([target(ast.Between(col('a'), col('b'), col('x')), 'r')], 't'), 'accept'),
        ('neg of string', lambda: sel([target(ast.Neg(col('s')), 'r')], 't'), 'reject'),
        ('add string int', lambda: sel([target(ast.Add(col('s'), col('a')), 'r')], 't'), 'reject'),
        ('match int', lambda: sel([target(ast.Match(col('a'), col('s')), 'r')], 't'), 'reject'),
        ('and of anything', lambda: sel([target(ast.And([col('a'), col('s')]), 'r')], 't'), 'accept'),
        ('null arithmetic', lambda: sel([target(ast.Add(const(None), const(1)), 'r')], 't'), 'reject'),
        ('limit', lambda: sel([target(col('a'))], 't', limit=0), 'accept'),
    ],
}


PIVOT_AGG = lambda: [target(col('a')), target(col('b')), target(SUM_A(), 'r')]     # noqa: E731
PIVOT = lambda p, q: sel(PIVOT_AGG(), 't', group_by=GB(col('a'), col('b')), pivot_by=ast.PivotBy([p, q]))     # noqa: E731
RULES['pivot'] = [
    ('by positions', lambda: PIVOT(1, 2), 'accept'),
    ('by names', lambda: PIVOT(col('a'), col('b')), 'accept'),
    ('mixed spelling', lambda: PIVOT(col('a'), 2), 'accept'),
    ('mixed spelling reversed', lambda: PIVOT(2, col('a')), 'accept'),
    ('first may be the aggregate', lambda: PIVOT(col('r'), 1), 'accept'),
    ('same column by position', lambda: PIVOT(1, 1), 'reject'),
    ('same column by name', lambda: PIVOT(col('b'), col('b')), 'reject'),
    ('same column name then position', lambda: PIVOT(col('a'), 1), 'reject'),
    ('same column position then name', lambda: PIVOT(2, col('b')), 'reject'),
    ('second is not a grouping column', lambda: PIVOT(1, 3), 'reject'),
    ('second is not a grouping column by name', lambda: PIVOT(col('a'), col('r')), 'reject'),
    ('unknown name', lambda: PIVOT(col('a'), col('zz')), 'reject'),
    ('position zero', lambda: PIVOT(0, 1), 'reject'),
    ('position past the targets', lambda: PIVOT(1, 4), 'reject'),
    ('not an aggregate query', lambda: sel([target(col('a')), target(col('b')), target(col('x'))], 't',
                                           pivot_by=ast.PivotBy([1, 2])), 'reject'),
]
META = lambda fname, *args: sel([target(func(fname, *args), 'r')], 'w')     # noqa: E731
RULES['function-arity'] = [
    ('meta(key)', lambda: META('meta', const('k')), 'accept'),
    ('meta()', lambda: META('meta'), 'reject'),
    ('meta(key, surplus)', lambda: META('meta', const('k'), const('z')), 'reject'),
    ('meta(key, surplus, surplus)', lambda: META('meta', const('k'), const('z'), const(3)), 'reject'),
    ('meta(int)', lambda: META('meta', const(1)), 'reject'),
    ('entry_meta()', lambda: META('entry_meta'), 'reject'),
    ('any_meta()', lambda: META('any_meta'), 'reject'),
    ('entry_meta(key, surplus)', lambda: META('entry_meta', const('k'), const('z')), 'reject'),
    ('meta() in WHERE', lambda: sel([target(col('a'))], 'w', where=ast.IsNull(func('meta'))), 'reject'),
    ('meta() in ORDER BY', lambda: sel([target(col('a'))], 'w', order_by=[ast.OrderBy(func('any_meta'), ast.Ordering.ASC)]), 'reject'),
    ('length()', lambda: META('length'), 'reject'),
    ('length(str, surplus)', lambda: META('length', const('k'), const('z')), 'reject'),
    ('year()', lambda: META('year'), 'reject'),
    ('root(account)', lambda: META('root', const('Assets:Bank')), 'accept'),
    ('root(account, n)', lambda: META('root', const('Assets:Bank'), const(1)), 'accept'),
    ('root(account, n, surplus)', lambda: META('root', const('Assets:Bank'), const(1), const(2)), 'reject'),
    ('count()', lambda: META('count'), 'reject'),
    ('sum(a, b)', lambda: sel([target(func('sum', col('a'), col('a')), 'r')], 'w'), 'reject'),
]


def make_rules(group, cases):
    @cond(f'C05.rules.{group}', quick=120,
          bounds=f'{len(cases)} statements exercising the rule group "{group}", each with its verdict written from the '
                 'property; observed: accepted, rejected (ProgrammingError) or any other exception (= violation)',
          symbolic='(none)', enumerated='statement (selector)', params={'i': int}, group='C05.rules')
    def rules(i):
        name, build, want = pick(cases, i)
        label = _check(build(), want)
        if label:
            return f'{label}: {name}'
        cover(want)
        return 'ok'


for _group, _cases in RULES.items():
    make_rules(_group, _cases)


# ---------------------------------------------------------------------------
# C05.index: positional references as symbolic integers

def make_index(clause, hidden):
    @cond(f'C05.index.{clause}.{"hidden" if hidden else "plain"}', quick=60,
          bounds=f'{clause} position p symbolic in -2..7 over 3 visible targets (a, b AS bb, count(*) AS n)'
                 + (' plus hidden GROUP BY / ORDER BY helper targets' if hidden else '')
                 + ': accepted iff the position names a visible target (and, for GROUP BY, a non-aggregate one)',
          symbolic='the position', enumerated='clause x hidden-targets (one condition each)', params={'p': int},
          group='C05.index')
    def index(p):
        p = enum_int(p, -2, 7)
        targets = [target(col('a')), target(col('b'), 'bb'), target(COUNT(), 'n')]
        group = [col('a'), col('b')] + ([ast.IsNull(col('s'))] if hidden else [])
        order = [ast.OrderBy(func('max', col('x')), ast.Ordering.ASC)] if hidden else None
        if clause == 'group':
            stmt = sel(targets[:2] + [target(COUNT(), 'n')], 't', group_by=GB(p, 2 if p == 1 else 1), order_by=order)
            want = 'accept' if p in (1, 2) else 'reject'
        elif clause == 'order':
            order = (order or []) + [ast.OrderBy(p, ast.Ordering.DESC)]
            stmt = sel(targets, 't', group_by=GB(*group), order_by=order)
            want = 'accept' if 1 <= p <= 3 else 'reject'
        else:
            stmt = sel(targets, 't', group_by=GB(*group), order_by=order, pivot_by=ast.PivotBy([p, 2 if p == 1 else 1]))
            want = 'accept' if p in (1, 2) else 'reject'
            if p == 3:
                want = 'accept'     # first pivot column may be any visible target
        label = _check(stmt, want)
        if label:
            return label
        cover(want)
        return 'ok'


for _clause in ('group', 'order', 'pivot'):
    for _hidden in (False, True):
        make_index(_clause, _hidden)


# ---------------------------------------------------------------------------
# C05.names: names as symbolic strings resolve exactly against the dictionaries

@cond('C05.names.symbolic', quick=180, thorough=600,
      bounds='table / column / function names as symbolic strings of length <=2 over {a, b, t}: the statement is accepted '
             'iff the name is in the dictionary',
      symbolic='the name', enumerated='kind of name (selector)')
def names_symbolic(name: str, kind: int) -> str:
    assume(len(name) <= 2)
    for ch in name:
        assume(ch in 'abt')
    kind = enum_int(kind, 0, 2)
    conn = _conn()
    conn.tables['ab'] = HTable('ab', [('a', int)], [(1,)])
    if kind == 0:
        stmt, want = sel([target(const(1), 'c')], name), (name in ('t', 'ab', ''))
    elif kind == 1:
        stmt, want = sel([target(col(name), 'c')], 't'), (name in ('a', 'b'))
    else:
        # the function registry is a defaultdict: a symbolic key would be inserted into it
        fname = pick(['abs', 'ab', 'a', 'abss', 'ABS', ''], enum_int(len(name), 0, 2) * 2 + (1 if name[:1] == 'a' else 0))
        stmt, want = sel([target(func(fname, col('x')), 'c')], 't'), (fname == 'abs')
    label = _check(stmt, 'accept' if want else 'reject', conn)
    return label or 'ok'


# ---------------------------------------------------------------------------
# C05.from: OPEN / CLOSE dates

@cond('C05.from.dates', quick=180,
      bounds='FROM [expr] OPEN ON d1 CLOSE [ON d2] [CLEAR] with d1, d2 symbolic dates 2019-2021 (day <= 28): rejected iff '
             'both dates are given and d1 > d2; never another exception',
      symbolic='both dates, presence bits of the filter expression, of the CLOSE date and of CLEAR',
      params={**sym.VDate(2019, 2021, nullable=False, maxday=28).params('d1'),
              **sym.VDate(2019, 2021, nullable=False, maxday=28).params('d2'),
              'has_expr': bool, 'close_date': bool, 'clear': bool, 'has_open': bool})
def from_dates(has_expr, close_date, clear, has_open, **kw):
    dom = sym.VDate(2019, 2021, nullable=False, maxday=28)
    d1, d2 = dom.build('d1', kw), dom.build('d2', kw)
    clause = ast.From(ast.Greater(col('a'), const(0)) if has_expr else None,
                      d1 if has_open else None, d2 if close_date else True, True if clear else None)
    stmt = sel([target(col('a'))], from_clause=clause)
    want = 'reject' if (has_open and close_date and d1 > d2) else 'accept'
    label = _check(stmt, want)
    if label:
        return label
    cover(want)
    return 'ok'


# ---------------------------------------------------------------------------
# C05.params

@cond('C05.params', quick=120,
      bounds='statements with 0..2 positional or named placeholders and 0..3 parameters / names out of {x, y, z}: '
             'accepted iff they match; mismatches are ProgrammingError',
      symbolic='number of parameters, which names are supplied', enumerated='statement (selector)')
def params(stmt: int, n: int, hx: bool, hy: bool, hz: bool) -> str:
    n = enum_int(n, 0, 3)
    texts = ['SELECT a FROM #t', 'SELECT a + %s AS r FROM #t', 'SELECT %s - %s AS r FROM #t',
             'SELECT %(x)s - %(y)s AS r FROM #t', 'SELECT %(x)s + %(x)s AS r FROM #t', 'SELECT %s + %(x)s AS r FROM #t']
    k = enum_int(stmt, 0, len(texts) - 1)
    text = texts[k]
    tree = parse_fresh(text)
    conn = _conn()
    if k <= 2:
        params = tuple(range(n))
        want = 'accept' if n == k else 'reject'
        if k == 0:
            want = 'accept'      # no placeholders: parameters are not looked at
    elif k in (3, 4):
        params = {}
        if hx:
            params['x'] = 1
        if hy:
            params['y'] = 2
        if hz:
            params['z'] = 3
        need = {'x', 'y'} if k == 3 else {'x'}
        want = 'accept' if need <= set(params) else 'reject'
    else:
        params = (1,)
        want = 'reject'      # mixed styles
    got = verdict(lambda: conn.execute(tree, params).fetchall())
    if got.startswith('raises-'):
        return got
    if got != want:
        return 'parameter-matching'
    return 'ok'


# ---------------------------------------------------------------------------
# C05.lex: literal token values

def parse_verdict(text):
    """('ast', tree) | ('reject', exc) | ('raises', exc)"""
    try:
        return 'ast', native(beanquery.parser.parse, text)
    except beanquery.ParseError as exc:
        return 'reject', exc
    except Exception as exc:
        return 'raises', exc


@cond('C05.lex.date', quick=240, thorough=900,
      bounds='every text YYYY-MM-DD with year in {0001, 2024, 9999} x month 00..13 x day 00..32 as a literal '
             'target and as an OPEN ON date: a date value or a ParseError, never another exception',
      symbolic='(none)', enumerated='year, month, day by forking; the two syntactic positions')
def lex_date(yi: int, m: int, d: int, in_from: bool) -> str:
    y = pick([1, 2024, 9999], yi)
    m = enum_int(m, 0, 13)
    d = enum_int(d, 0, 32)
    lit = f'{y:04d}-{m:02d}-{d:02d}'
    text = f'SELECT 1 FROM OPEN ON {lit}' if in_from else f'SELECT {lit} AS d'
    kind, val = parse_verdict(text)
    try:
        valid = datetime.date(y, m, d)
    except ValueError:
        valid = None
    if kind == 'raises':
        return 'escapes-as-' + type(val).__name__
    if valid is not None:
        if kind != 'ast':
            return 'valid-date-rejected'
        got = val.from_clause.open if in_from else val.targets[0].expression
        if in_from:
            if got != valid:
                return 'date-value'
        elif got != ast.Constant(valid):
            return 'date-value'
        cover('valid')
    else:
        if kind == 'ast':
            return 'invalid-date-accepted-as-something-else'
        cover('invalid')
    return 'ok'


@cond('C05.lex.integer', quick=120,
      bounds='integer literals: symbolic value 0..10^4 printed in decimal, and digit strings of length 1, 10, 100, 4300, '
             '4301, 5000, 20000: the value or a ParseError, never another exception',
      symbolic='the integer value', enumerated='oversized digit-string lengths')
def lex_integer(n: int, big: int) -> str:
    big = enum_int(big, 0, 7)
    if big == 0:
        assume(0 <= n <= 10 ** 4)
        got = beanquery.parser.BQLSemantics().integer(str(n))
        if got != n:
            return 'integer-value'
        return 'ok'
    digits = pick([1, 10, 100, 4300, 4301, 5000, 20000], big - 1)
    text = 'SELECT ' + '7' * digits + ' AS n'
    kind, val = parse_verdict(text)
    if kind == 'raises':
        return 'escapes-as-' + type(val).__name__
    if kind == 'ast' and val.targets[0].expression.value != int('7' * digits) if digits <= 4300 else False:
        return 'integer-value'
    return 'ok'


TOKENS = ['SELECT', 'FROM', 'WHERE', 'GROUP', 'BY', 'ORDER', 'HAVING', 'LIMIT', 'PIVOT', 'DISTINCT', 'AS', 'AND', 'OR',
          'NOT', 'IN', 'IS', 'NULL', 'TRUE', 'ASC', 'DESC', 'BALANCES', 'JOURNAL', 'PRINT', 'AT', 'OPEN', 'ON', 'CLOSE',
          'CLEAR', 'BETWEEN', 'a', 'f', '#t', '#', '*', ',', '(', ')', '[', ']', '.', ';', '+', '-', '/', '%', '%s', '%(x)s',
          '%(', '=', '!=', '<', '<=', '>', '>=', '~', '!~', '!', '1', '1.5', '.5', '2020-01-01', '2020-02-30', "'s'", '"s"',
          "'", '"', '/*', '*/', '/* c */', '; c', '\n', '\\', '$', '@', '?', '{', '}', '`', 'é']
PREFIXES = ['', 'SELECT', 'SELECT a', 'SELECT a FROM', 'SELECT a FROM #t WHERE', 'SELECT a WHERE a', 'SELECT a GROUP BY',
            'SELECT a ORDER BY a', 'SELECT a, sum(b) GROUP BY a PIVOT BY', 'SELECT a LIMIT', 'BALANCES', 'JOURNAL', 'PRINT FROM',
            'SELECT a FROM OPEN ON', 'SELECT f(', 'SELECT a IN (']


def make_text(pi):
    prefix = PREFIXES[pi]

    @cond(f'C05.text.prefix{pi}', quick=300, thorough=600,
          bounds=f'statement texts "{prefix}" + every sequence of <=2 tokens out of a core vocabulary of 37 tokens '
                 f'(keywords, operators, brackets, literals incl. invalid dates, oversized integers, unterminated strings and '
                 'comments, stray characters): an AST or a ParseError whose location is a valid span; never another exception',
          symbolic='(none)', enumerated='all token sequences (looped natively inside one path; the solver is not involved)',
          params={'deep': bool}, group='C05.text', per_path_timeout=3000,
          note='C05.text is exhaustive enumeration of concrete texts: TatSu cannot be executed on symbolic text')
    def text_cond(deep):
        return native(_scan_texts, prefix, 2, CORE_TOKENS)

    @cond(f'C05.text2.prefix{pi}', quick=None, thorough=1500,
          bounds=f'statement texts "{prefix}" + every sequence of <=2 tokens out of the full vocabulary of {len(TOKENS)} '
                 'and a thinned cube of 3-token sequences: an AST or a ParseError whose location is a valid span',
          symbolic='(none)', enumerated='all token sequences (looped natively inside one path)',
          params={'deep': bool}, group='C05.text', per_path_timeout=6000)
    def text_cond2(deep):
        return native(_scan_texts, prefix, 3, TOKENS)


CORE_TOKENS = ['SELECT', 'FROM', 'WHERE', 'BY', 'AS', 'AND', 'NOT', 'IN', 'NULL', 'OPEN', 'ON', 'CLOSE', 'a', '#t', '*', ',',
               '(', ')', '[', '.', ';', '-', '%s', '%(', '=', '<', '!', '1', '.5', '2020-01-01', '2020-02-30', "'s'", "'", '/*',
               '; c', '$', '7' * 4400]


def _scan_texts(prefix, maxlen, tokens):
    count = 0
    for n in range(0, maxlen + 1):
        for seq in itertools.product(tokens, repeat=n):
            if n == 3 and (tokens.index(seq[0]) % 7 or tokens.index(seq[1]) % 5 or tokens.index(seq[2]) % 3):
                continue        # thin the cube
            text = ' '.join((prefix,) + seq).strip()
            try:
                beanquery.parser.parse(text)
            except beanquery.ParseError as exc:
                label = _location_label(exc, text)
                if label:
                    return f'{label}: {text!r}'
            except Exception as exc:
                return f'escapes-as-{type(exc).__name__}: {text!r}'
            count += 1
    cover(f'texts-{count}')
    return 'ok'


def _location_label(exc, text):
    info = exc.parseinfo
    if info is None:
        return None
    if not (0 <= info.pos <= info.endpos):
        return 'location-not-a-span'
    if info.pos > len(text):
        return 'location-beyond-text'
    nlines = len(text.splitlines()) or 1
    if not 0 <= info.line <= nlines:
        return 'location-line'
    if text.strip():        # the shell never parses an empty line
        try:
            shell.render_exception(exc)
        except Exception as e2:
            return 'render-exception-raises-' + type(e2).__name__
    return None


for _pi in range(len(PREFIXES)):
    make_text(_pi)


@cond('C05.loc.compile', quick=60,
      bounds='compilation errors carrying a location (unknown column / function / attribute / subscript in statements '
             'parsed from text with newlines and padding): the location is a span of the text and renders',
      symbolic='(none)', enumerated='statement (selector), padding (selector)', params={'i': int, 'p': int})
def loc_compile(i, p):
    texts = ['SELECT {0}zz FROM #t', 'SELECT a,{0}nosuch(a) FROM #t', 'SELECT a FROM #t WHERE{0}s.year = 1',
             "SELECT{0}s['k'] FROM #t", 'SELECT a FROM #t ORDER BY{0}a + s', 'SELECT a FROM{0}#nosuch',
             'SELECT coalesce(a,{0}s) FROM #t']
    pad = pick([' ', '\n', '\n\n  ', '\t'], p)
    text = pick(texts, i).format(pad)
    conn = _conn()
    try:
        conn.execute(native(beanquery.parser.parse, text))
    except beanquery.CompilationError as exc:
        if exc.parseinfo is not None:
            info = exc.parseinfo
            if not (0 <= info.pos <= info.endpos <= len(text)):
                return 'location-not-a-span'
            if not 0 <= info.line < len(text.splitlines()):
                return 'location-line'
            if text.splitlines(True)[info.line:] and info.pos < sum(len(ln) for ln in text.splitlines(True)[:info.line]):
                return 'location-line-inconsistent-with-position'
            try:
                native(shell.render_exception, exc)
            except Exception as e2:
                return 'render-exception-raises-' + type(e2).__name__
            cover('located')
        return 'ok'
    except Exception as exc:
        return 'raises-' + type(exc).__name__
    return 'accepted-invalid'


# ---------------------------------------------------------------------------
# C05.matrix: operator x operand-type matrix including untyped, collection and NULL operands

MATRIX_OPERANDS = [(n, lambda n=n: col(n), t) for n, t in COLS] + [('NULL', lambda: const(None), type(None))]
MATRIX_OPS = [ast.Add, ast.Sub, ast.Mul, ast.Div, ast.Mod, ast.Equal, ast.NotEqual, ast.Less, ast.LessEq, ast.Greater,
              ast.GreaterEq, ast.Match, ast.NotMatch]


def make_matrix(astcls):
    @cond(f'C05.matrix.{astcls.__name__}', quick=120,
          bounds=f'{astcls.__name__}(x, y) for every ordered pair of operand kinds out of int, str, dict, set, Decimal, bool, '
                 'object (untyped) columns and the NULL constant: compiled iff an overload exists (after the implicit cast '
                 'of an untyped operand); a rejection is a CompilationError, never another exception',
          symbolic='(none)', enumerated='operand kinds (two selectors)', params={'i': int, 'j': int}, group='C05.matrix')
    def matrix(i, j):
        (ln, lmake, lt), (rn, rmake, rt) = pick(MATRIX_OPERANDS, i), pick(MATRIX_OPERANDS, j)
        node = astcls(lmake(), rmake())
        cand, _, _ = refsem.binary_overload(astcls, lt, rt)
        want = 'accept' if cand is not None else 'reject'
        conn = _conn()
        got = verdict(lambda: native(conn.compile, sel([target(node, 'r')], 't')))
        if got.startswith('raises-'):
            return f'{got}: {ln} {astcls.__name__} {rn}'
        if got != want:
            return f'{"accepted-invalid" if got == "accept" else "rejected-valid"}: {ln} {astcls.__name__} {rn}'
        cover(want)
        return 'ok'


for _cls in MATRIX_OPS:
    make_matrix(_cls)


EOF_PREFIXES = ['SELECT', 'SELECT a,', 'SELECT a FROM', 'SELECT a WHERE', 'SELECT a WHERE a =', 'SELECT a\nFROM #t\nWHERE', 'BALANCES AT',
                'JOURNAL FROM', 'PRINT FROM', 'SELECT (a', "SELECT 'abc", 'SELECT a ORDER BY', 'SELECT a GROUP BY a HAVING', 'SELECT f(a,']
EOF_SUFFIXES = ['', '\n', ' \n', '\n\n', '\n  ', ' ; c\n', '\t']


@cond('C05.loc.eof', quick=120,
      bounds=f'{len(EOF_PREFIXES)} statements that end too early x {len(EOF_SUFFIXES)} trailers (nothing, newlines, blanks, an '
             'end-of-line comment): a ParseError whose position lies within the text (or one past its end), whose line exists, and '
             'that the shell renders without raising',
      symbolic='(none)', enumerated='statement, trailer', params={'i': int, 'j': int})
def loc_eof(i, j):
    text = pick(EOF_PREFIXES, i) + pick(EOF_SUFFIXES, j)

    def run():
        try:
            beanquery.parser.parse(text)
        except beanquery.ParseError as exc:
            info = exc.parseinfo
            if not (0 <= info.pos <= info.endpos <= len(text) + 1):
                return 'location-not-a-span'
            nlines = len(text.splitlines()) or 1
            if not 0 <= info.line < nlines:
                return f'location-line-does-not-exist: line {info.line} of {nlines}'
            try:
                shell.render_exception(exc)
            except Exception as e2:
                return 'render-exception-raises-' + type(e2).__name__
            return 'ok'
        except Exception as exc:
            return 'escapes-as-' + type(exc).__name__
        return 'accepted-incomplete-statement'
    return native(run)
