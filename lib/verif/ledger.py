"""Ledger fixtures: a small concrete ledger (loaded once, natively) and directive builders."""

import datetime
import decimal
import functools

import beanquery
from beancount import loader
from beancount.core import amount, data, inventory, position
from beancount.parser import options as bc_options

from . import h

D = decimal.Decimal
A = amount.Amount

LEDGER_TEXT = '''
option "title" "verif"
option "operating_currency" "USD"

2019-01-01 open Assets:Bank               USD
  color: "blue"
2019-01-01 open Assets:Broker
2019-01-01 open Liabilities:Card          USD
2019-01-01 open Income:Salary
2019-01-01 open Expenses:Food
  limit: 100
2019-01-01 open Expenses:Fees
2019-01-01 open Equity:Opening

2019-01-01 commodity USD
  name: "US Dollar"
2019-01-01 commodity HOOL
  name: "Hooli"
  asset-class: "stock"

2019-01-02 * "Employer" "salary" #pay ^link1
  note: "first"
  Assets:Bank           1000.00 USD
    tag: "x"
  Income:Salary        -1000.00 USD

2019-01-03 price HOOL 100.00 USD
2019-01-03 price EUR 1.25 USD

2019-01-05 * "Broker" "buy"
  Assets:Broker            2 HOOL {100.00 USD, 2019-01-05}
  Assets:Bank           -200.00 USD

2019-01-10 ! "Cafe" "lunch"
  Expenses:Food           12.50 USD
  Liabilities:Card       -12.50 USD

2019-01-15 * "sell"
  Assets:Broker           -1 HOOL {100.00 USD, 2019-01-05} @ 120.00 USD
  Assets:Bank            119.00 USD
  Expenses:Fees            1.00 USD
  Income:Salary          -20.00 USD

2019-01-20 note Assets:Bank "a note"
2019-01-21 event "location" "Paris"
2019-01-22 balance Assets:Bank  919.00 USD
2019-01-25 pad Liabilities:Card Equity:Opening
2019-01-26 balance Liabilities:Card  -20.00 USD
2019-01-27 document Assets:Bank "/tmp/doc.pdf"
2019-01-28 query "food" "SELECT account, sum(position) FROM year = 2019 WHERE account ~ 'Food' GROUP BY 1"
2019-01-29 custom "budget" "x" 10.00 USD
2019-02-01 * "Cafe" "dinner"
  Expenses:Food            8.00 EUR @ 1.25 USD
  Liabilities:Card       -10.00 USD
2019-02-10 close Assets:Broker
'''


@functools.lru_cache(maxsize=None)
def _load(text):
    entries, errors, options = loader.load_string(text)
    return entries, errors, options


def load(text=LEDGER_TEXT):
    entries, errors, options = h.native(_load, text)
    return list(entries), errors, options


def connect(entries=None, options=None):
    """A connection over (a copy of the list of) the fixture ledger, or over the given entries."""
    import beanquery.sources.beancount  # noqa: F401
    if entries is None:
        entries, _, options = load()
    if options is None:
        options = load()[2]
    return h.native(beanquery.connect, 'beancount:', entries=entries, errors=[], options=options)


def default_options():
    return load()[2]


# -- builders (fields may be symbolic) -------------------------------------------

def meta(lineno=1, **kw):
    m = {'filename': 'mem.beancount', 'lineno': lineno}
    m.update(kw)
    return m


def posting(account, number, currency, cost=None, price=None, flag=None, pmeta=None):
    return data.Posting(account, A(number, currency), cost, price, flag, pmeta)


def txn(date, postings, payee=None, narration='', flag='*', tags=frozenset(), links=frozenset(), tmeta=None, lineno=1):
    return data.Transaction(tmeta if tmeta is not None else meta(lineno), date, flag, payee, narration, tags, links,
                            list(postings))


ACCOUNTS = ['Assets:Bank', 'Assets:Broker', 'Liabilities:Card', 'Income:Salary', 'Expenses:Food', 'Equity:Opening']


def opens(date=datetime.date(2018, 1, 1), accounts=ACCOUNTS):
    return [data.Open(meta(i + 1), date, acc, None, None) for i, acc in enumerate(accounts)]
